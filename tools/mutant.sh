#!/bin/sh
# usage: tools/mutant.sh <file under Lib/ufo2ft> <sed expression> <check id> [tier]
# copies /repo/Lib to a scratch dir, applies the sed expression, runs the check against it, removes the copy
set -e
D=$(mktemp -d /var/tmp/mut.XXXXXX)
cp -r /repo/Lib "$D/Lib"
sed -i "$2" "$D/Lib/ufo2ft/$1"
if diff -q /repo/Lib/ufo2ft/$1 "$D/Lib/ufo2ft/$1" >/dev/null; then echo "sed expression changed nothing"; rm -rf "$D"; exit 3; fi
diff /repo/Lib/ufo2ft/$1 "$D/Lib/ufo2ft/$1" || true
cd "$(dirname "$0")/.."
VERIF_EVIDENCE_DIR="$D/ev" REPO_LIB="$D/Lib" timeout 900 ./check $3 --tier ${4:-quick} | grep -v "^classes" | cut -c1-300 || true
rm -rf "$D"
