#!/bin/sh
# usage: tools/seed_replay.sh <patch.diff> <check id> <replay name> "<note>" [tier]
# runs the check against a patched copy of /repo/Lib; keeps the first violating case as replays/<ID>/<name>.json
# after confirming that the same case holds on the unchanged tree (a regression witness, not a finding)
P=$1; ID=$2; NAME=$3; NOTE=$4; TIER=${5:-quick}
D=$(mktemp -d /var/tmp/sr.XXXXXX)
mkdir -p "$D/r"; cp -r /repo/Lib "$D/r/Lib"
(cd "$D/r" && patch -p1 -s < "$P") || { echo "patch failed"; rm -rf "$D"; exit 3; }
cd "$(dirname "$0")/.."
OUT=$(VERIF_EVIDENCE_DIR="$D/ev" REPO_LIB="$D/r/Lib" timeout 1800 ./check $ID --tier $TIER 2>&1 | grep "^VIOLATION" | head -1)
R=$(echo "$OUT" | sed 's/.*replay=//')
if [ -z "$R" ]; then echo "NOT CAUGHT"; rm -rf "$D"; exit 1; fi
echo "caught: $R"
RES=$(./check $ID --replay "$R" 2>&1)
if echo "$RES" | grep -q "^VIOLATION"; then echo "replay also fails on the unchanged tree: not kept"; rm -rf "$D"; exit 2; fi
if ! echo "$RES" | grep -q "property holds"; then echo "caught, but the case is outside the domain on the unchanged tree (not kept as a witness): $R"; rm -rf "$D"; exit 0; fi
case "$R" in replays/*) echo "already a kept replay";; *) tools/keep_replay.py "$R" "$NAME" "$NOTE";; esac
rm -rf "$D"
