#!/bin/sh
# usage: tools/run_all.sh [quick|thorough] [ids...]   - runs the checks one after the other, one summary line each
cd "$(dirname "$0")/.."
TIER=${1:-quick}; shift 2>/dev/null
IDS=${@:-C01 C02 C03 C04 C05 C06 C07 C08 C09 C10 C11 C12 C13 C14 C15 C16 C17 C18 C19 C20}
for c in $IDS; do
  out=$(./check $c --tier $TIER 2>&1); rc=$?
  echo "$c rc=$rc $(echo "$out" | grep "^$c tier" | head -1)"
  echo "$out" | grep "^VIOLATION\|^violation\|HARNESS" | head -4
done
