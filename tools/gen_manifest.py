#!/venv/bin/python
"""Regenerates MANIFEST.json from the check modules (ID, MANIFEST dict) and validates it against the schema."""
import importlib, json, os, sys
VERIF = os.path.dirname(os.path.dirname(os.path.abspath(__file__)))
sys.path.insert(0, VERIF)
from ufoverif.runner import setup_imports
setup_imports()
props = [json.loads(l) for l in open(os.path.join(VERIF, "properties.jsonl"))]
checks, na = [], []
for p in props:
    pid = p["id"]
    path = os.path.join(VERIF, "ufoverif", "checks", pid.lower() + ".py")
    if not os.path.exists(path):
        na.append({"property_id": pid, "reason": "check not built yet (planned in DESIGN.md section 5; generated-search oracle is designed and prototyped)"})
        continue
    mod = importlib.import_module("ufoverif.checks." + pid.lower())
    m = mod.MANIFEST
    checks.append({
        "property_id": pid,
        "quick_cmd": "./check %s --tier quick" % pid,
        "thorough_cmd": "./check %s --tier thorough" % pid,
        "evidence_file": "evidence/%s.json" % pid,
        "replay_cmd_template": "./check %s --replay {path}" % pid,
        "engine": "ufoverif",
        "level_claimed": {"category": "exploration", "text": m["text"], "design_ref": "DESIGN.md section 5, %s" % pid},
        "level_note": m["note"],
        "technique": m["technique"],
    })
manifest = {
    "version": 1,
    "setup_cmd": "./setup.sh",
    "hooks": {
        "guard": "UFO2FT_VERIF",
        "enable": "no source hooks are needed: checks import ufo2ft from /repo/Lib (the working tree) and observe it through its public compile functions, filter/feature-writer protocols and the returned TTFont",
        "baseline_off_cmd": "cd /repo && /venv/bin/python -m pytest -ra -q -p no:cacheprovider --timeout=900 --continue-on-collection-errors",
        "source_commits": [],
        "add_only": True,
    },
    "engines": [{"name": "ufoverif", "path": "ufoverif/", "serves_properties": [c["property_id"] for c in checks],
                 "kind_free_text": "Hypothesis-driven generated search (sharded over processes, seeded by VERIF_SEED) against independent reference models, table interpreters and differential/metamorphic relations; shrunk failures become JSON replay files. The thorough tier adds an auxiliary coverage-guided phase: atheris/libFuzzer drives the same strategy and oracle through Hypothesis' fuzz_one_input with ufo2ft instrumented for edge coverage (ufoverif/fuzz.py)"}],
    "checks": checks,
    "not_applicable": na,
    "notes": "All checks: exit 0 held / 1 + VIOLATION line / 2 harness error. Known findings are listed in known_findings.json and reported as KNOWN-FINDING lines.",
}
if not na:
    del manifest["not_applicable"]
json.dump(manifest, open(os.path.join(VERIF, "MANIFEST.json"), "w"), indent=1)
try:
    import jsonschema
    jsonschema.validate(manifest, json.load(open("/root/.vp/MANIFEST.schema.json")))
    print("manifest valid;", len(checks), "checks,", len(na), "not applicable")
except ImportError:
    print("jsonschema not available; manifest written,", len(checks), "checks")
