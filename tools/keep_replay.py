#!/usr/bin/env python3
"""tools/keep_replay.py out/Cxx-hash.json <name> "<note>" [finding-id]  -> replays/Cxx/<name>.json"""
import json, os, sys
V = os.path.dirname(os.path.dirname(os.path.abspath(__file__)))
d = json.load(open(sys.argv[1]))
pid = d["property"]
doc = {"case": d["case"], "note": sys.argv[3]}
if len(sys.argv) > 4:
    doc["finding"] = sys.argv[4]
os.makedirs(os.path.join(V, "replays", pid), exist_ok=True)
json.dump(doc, open(os.path.join(V, "replays", pid, sys.argv[2] + ".json"), "w"), indent=1, sort_keys=True)
print("kept", pid, sys.argv[2])
