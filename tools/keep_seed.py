#!/usr/bin/env python3
"""tools/keep_seed.py <srcdir> <N> <PID> <result: caught|missed|...> "<what I ran / observed>"  -> seeded/<PID>-<k>/"""
import json, os, shutil, sys
V = os.path.dirname(os.path.dirname(os.path.abspath(__file__)))
src, n, pid, result, ran = sys.argv[1:6]
k = 1
while os.path.exists(os.path.join(V, "seeded", "%s-%d" % (pid, k))):
    k += 1
d = os.path.join(V, "seeded", "%s-%d" % (pid, k))
os.makedirs(d)
shutil.copy(os.path.join(src, "mut%s.diff" % n), os.path.join(d, "patch.diff"))
shutil.copy(os.path.join(src, "demo%s.py" % n), os.path.join(d, "demo.py"))
m = json.load(open(os.path.join(src, "meta%s.json" % n)))
meta = {"property": pid, "summary": m.get("summary"), "needs": m.get("needs"), "files": m.get("files"),
        "confirmed": "patch applies to the pinned tree; repository suite passes with it (1148 passed); demo exits 0 without and non-zero with the change (tools/seedcheck.sh)",
        "check_result": result, "what_i_ran": ran, "origin": "independent sub-agent given only the property text and a scratch worktree"}
json.dump(meta, open(os.path.join(d, "meta.json"), "w"), indent=1)
print("kept", d)
