#!/bin/sh
# usage: tools/seedcheck.sh <dir containing mutN.diff/demoN.py> <N> <check id> [tier]
# 1. confirms: patch applies, suite passes with it, demo fails with it and passes without
# 2. runs ./check <id> against the patched copy (REPO_LIB)
SD=$1; N=$2; ID=$3; TIER=${4:-quick}
D=$(mktemp -d /var/tmp/seed.XXXXXX)
git -C /repo worktree add -q --detach "$D/wt" HEAD || exit 3
cd "$D/wt"
PYTHONPATH="$D/wt/Lib" /venv/bin/python "$SD/demo$N.py" >/dev/null 2>&1; echo "demo without change: exit $?"
git apply "$SD/mut$N.diff" || { echo "PATCH DOES NOT APPLY"; }
PYTHONPATH="$D/wt/Lib" /venv/bin/python "$SD/demo$N.py" >/dev/null 2>&1; echo "demo with change:    exit $?"
if [ -z "$SKIP_SUITE" ]; then PYTHONPATH="$D/wt/Lib" /venv/bin/python -m pytest -q -p no:cacheprovider -n 8 tests 2>&1 | tail -1; fi
cd /verif
VERIF_EVIDENCE_DIR="$D/ev" REPO_LIB="$D/wt/Lib" timeout 1800 ./check $ID --tier $TIER | grep -v "^classes" | cut -c1-400
git -C /repo worktree remove --force "$D/wt"; rm -rf "$D"
