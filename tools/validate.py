#!/opt/veriftools/pyvenv/bin/python
"""validate MANIFEST.json and evidence/*.json against the schemas (uses the tooling venv's jsonschema)"""
import glob, json, sys, os
import jsonschema
V = os.path.dirname(os.path.dirname(os.path.abspath(__file__)))
ok = True
def val(path, schema):
    global ok
    try:
        jsonschema.validate(json.load(open(path)), json.load(open(schema)))
        print("valid  ", os.path.relpath(path, V))
    except Exception as e:
        ok = False
        print("INVALID", os.path.relpath(path, V), str(e)[:300])
val(os.path.join(V, "MANIFEST.json"), "/root/.vp/MANIFEST.schema.json")
for p in sorted(glob.glob(os.path.join(V, "evidence", "*.json"))):
    val(p, "/root/.vp/EVIDENCE.schema.json")
sys.exit(0 if ok else 1)
