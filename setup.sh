#!/bin/sh
# idempotent, offline: make sure hypothesis is importable in /venv
set -e
cd "$(dirname "$0")"
if ! /venv/bin/python -c "import hypothesis" 2>/dev/null; then
  /venv/bin/pip install --no-index --find-links /opt/veriftools/wheels hypothesis
fi
/venv/bin/python -c "import hypothesis, fontTools, defcon, ufoLib2; print('setup ok: hypothesis', hypothesis.__version__)"
mkdir -p out evidence
# coverage-guided phase of the thorough tier: atheris next to the repository's packages (offline wheelhouse); optional - the phase reports itself skipped without it
if ! PYTHONPATH="$PWD/.deps" /venv/bin/python -c "import atheris" 2>/dev/null; then
  /venv/bin/pip install -q --no-index --find-links /opt/veriftools/wheels --target "$PWD/.deps" atheris || echo "setup: atheris not installed (coverage-guided phase will be skipped)"
fi
