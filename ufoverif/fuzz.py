"""Coverage-guided variant of a check: libFuzzer (atheris) drives the check's Hypothesis strategy through
`fuzz_one_input`, with ufo2ft instrumented for edge coverage, so that byte mutations which reach new branches of
the code under test are kept and mutated further.  The oracle is the check's own `run_case` - a Violation is
written out as an ordinary replay file.

usage (one process per shard; started by runner.run_fuzz):
    python -m ufoverif.fuzz <ID> <tier> <seed> <runs> <statsfile> <corpusdir>
exit: 0 runs exhausted, 77 violation (stats file holds the case), anything else harness error
"""
import json
import os
import sys
import time

VERIF = os.path.dirname(os.path.dirname(os.path.abspath(__file__)))
sys.path.insert(0, VERIF)
sys.path.insert(0, os.path.join(VERIF, ".deps"))


def main(argv):
    pid, tier, seed, runs, statsfile, corpus = argv[1], argv[2], int(argv[3]), int(argv[4]), argv[5], argv[6]
    import atheris

    from ufoverif import runner

    if runner.REPO_LIB not in sys.path:
        sys.path.insert(0, runner.REPO_LIB)
    os.environ.setdefault("SOURCE_DATE_EPOCH", "1600000000")
    import logging
    import warnings

    warnings.filterwarnings("ignore")
    logging.disable(logging.CRITICAL)
    # instrument every ufo2ft module (they have to be imported inside the context manager)
    import importlib
    import pkgutil

    with atheris.instrument_imports(include=["ufo2ft"], enable_loader_override=False):
        import ufo2ft

        for m in pkgutil.walk_packages(ufo2ft.__path__, "ufo2ft."):
            try:
                importlib.import_module(m.name)
            except Exception:
                pass
    assert os.path.abspath(ufo2ft.__file__).startswith(os.path.abspath(runner.REPO_LIB))
    mod = runner.load_check(pid)
    from hypothesis import HealthCheck, given, settings

    ctx = runner.Ctx()
    t0 = time.time()
    state = {"n": 0}

    def dump(extra=None):
        doc = {
            "evaluations": ctx.evaluations, "labels": dict(ctx.labels), "counters": dict(ctx.counters), "discards": dict(ctx.discards),
            "nontrivial": sorted(ctx.nontrivial_hashes), "samples": ctx.samples, "wall_s": round(time.time() - t0, 2), "executions": state["n"], "seed": seed,
        }
        if extra:
            doc.update(extra)
        tmp = statsfile + ".tmp"
        with open(tmp, "w") as f:
            json.dump(doc, f, default=runner._json_default)
        os.replace(tmp, statsfile)

    def body(case):
        runner.execute(mod, case, ctx)

    test = settings(deadline=None, database=None, suppress_health_check=list(HealthCheck), print_blob=False)(given(mod.strategy(tier))(body))
    fuzz_one = test.hypothesis.fuzz_one_input

    def one(data):
        state["n"] += 1
        try:
            fuzz_one(data)
        except runner.Violation as v:
            case = None
            # the failing case is the last one begun by execute()
            case = ctx.current_case if hasattr(ctx, "current_case") else None
            dump({"failure": {"case": case, "msg": v.msg, "details": v.details}})
            sys.stdout.flush()
            os._exit(77)
        if state["n"] % 200 == 0:
            dump()
        if state["n"] >= runs:
            dump({"done": True})
            sys.stdout.flush()
            os._exit(0)

    os.makedirs(corpus, exist_ok=True)
    if not os.listdir(corpus):
        # libFuzzer starts from tiny inputs, which the Hypothesis strategies reject as "not enough data": seed the corpus with a few pseudo-random
        # buffers (a pure function of the seed) large enough to draw a whole case from
        import random

        rnd = random.Random(seed)
        for i in range(max(24, runs // 3)):
            with open(os.path.join(corpus, "seed%04d" % i), "wb") as f:
                f.write(bytes(rnd.getrandbits(8) for _ in range(rnd.choice([512, 2048, 6000]))))
    atheris.Setup([sys.argv[0], "-seed=%d" % (seed or 1), "-runs=%d" % (runs * 4), "-max_len=8192", "-verbosity=0", "-print_final_stats=0", "-artifact_prefix=%s/" % corpus, corpus], one)
    atheris.Fuzz()
    dump({"done": True})
    os._exit(0)


if __name__ == "__main__":
    main(sys.argv)
