"""Check runner: seeds, sharding, case accounting, shrinking, replay, known findings, evidence.

A check module (ufoverif/checks/cNN.py) provides

    ID, RULE, ASSUMPTIONS, N = {"quick": (shards, per_shard), "thorough": (...)}
    strategy(tier)            -> Hypothesis strategy of JSON-able case dicts
    run_case(case, ctx)       -> None; raises Violation / Discard; ctx.label(), ctx.nontrivial()
    FLOORS (optional)         -> {label: minimal fraction of evaluations}; below => exit 2
    enumerate_cases(tier)     -> optional iterable of cases of an exhaustively enumerated slice
    known_class(case)         -> optional: id of the known finding whose input class `case` is in

Exit protocol: 0 held, 1 + VIOLATION line, 2 harness error.
"""
import hashlib
import importlib
import json
import os
import subprocess
import sys
import time
import traceback
import collections

VERIF = os.path.dirname(os.path.dirname(os.path.abspath(__file__)))
REPO_LIB = os.environ.get("REPO_LIB", "/repo/Lib")


class Violation(Exception):
    """the property does not hold for this case"""

    def __init__(self, msg, **details):
        super().__init__(msg)
        self.msg = msg
        self.details = details


class Discard(Exception):
    """case is outside the property's domain (counted by reason)"""

    def __init__(self, reason):
        super().__init__(reason)
        self.reason = reason


class Ctx:
    def __init__(self):
        self.labels = collections.Counter()
        self.discards = collections.Counter()
        self.counters = collections.Counter()
        self.nontrivial_hashes = set()
        self.samples = []
        self.evaluations = 0
        self._nt = False
        self._case_labels = set()

    def begin(self):
        self._nt = False
        self._case_labels = set()

    def label(self, name):
        """per-case class label (counted once per case)"""
        self._case_labels.add(name)

    def count(self, name, k=1):
        """free counter (e.g. number of pairs evaluated)"""
        self.counters[name] += k

    def nontrivial(self, flag=True):
        if flag:
            self._nt = True

    def commit(self, case, sample_fn=None):
        self.evaluations += 1
        for l in self._case_labels:
            self.labels[l] += 1
        if self._nt:
            h = case_hash(case)
            if h not in self.nontrivial_hashes:
                self.nontrivial_hashes.add(h)
                if len(self.samples) < 3:
                    self.samples.append(abbreviate(sample_fn(case) if sample_fn else case))


def canonical(case):
    return json.dumps(case, sort_keys=True, separators=(",", ":"), default=_json_default)


def _json_default(o):
    if isinstance(o, (set, frozenset)):
        return sorted(o, key=repr)
    if isinstance(o, tuple):
        return list(o)
    if isinstance(o, bytes):
        return o.hex()
    return repr(o)


def case_hash(case):
    return hashlib.sha1(canonical(case).encode("utf-8", "surrogatepass")).hexdigest()[:16]


def abbreviate(obj, maxlen=1500):
    s = canonical(obj)
    if len(s) <= maxlen:
        return json.loads(s)
    return {"abbreviated": s[:maxlen] + "...", "full_length": len(s)}


def setup_imports():
    """make sure the code under test is /repo's working tree"""
    if REPO_LIB not in sys.path:
        sys.path.insert(0, REPO_LIB)
    os.environ.setdefault("SOURCE_DATE_EPOCH", "1600000000")
    import warnings
    import logging

    warnings.filterwarnings("ignore")
    logging.disable(logging.CRITICAL)
    import ufo2ft

    assert os.path.abspath(ufo2ft.__file__).startswith(os.path.abspath(REPO_LIB)), (
        "ufo2ft imported from %s, expected %s" % (ufo2ft.__file__, REPO_LIB)
    )


def load_check(pid):
    setup_imports()
    return importlib.import_module("ufoverif.checks.%s" % pid.lower())


def _in_ufo2ft(tb):
    """innermost frame of the traceback that lies in ufo2ft, or None"""
    hit = None
    for fs in traceback.extract_tb(tb):
        fn = os.path.abspath(fs.filename)
        if fn.startswith(os.path.abspath(REPO_LIB) + os.sep):
            hit = "%s:%s" % (os.path.relpath(fn, REPO_LIB), fs.name)
    return hit


class guard:
    """Context manager around calls into the code under test.  Exceptions of the `allowed` types
    pass through (the check decides whether the rejection is legitimate); any other exception whose
    traceback passes through ufo2ft becomes a Violation ("unexpected exception"), bucketed by
    (type, innermost ufo2ft frame)."""

    def __init__(self, what, allowed=()):
        self.what = what
        self.allowed = tuple(allowed)

    def __enter__(self):
        return self

    def __exit__(self, et, ev, tb):
        if et is None or issubclass(et, (Violation, Discard, KeyboardInterrupt, MemoryError)):
            return False
        if self.allowed and issubclass(et, self.allowed):
            return False
        frame = _in_ufo2ft(tb)
        if frame is None:
            return False  # harness / third-party problem: not attributed to ufo2ft
        raise Violation(
            "unexpected %s in %s: %s" % (et.__name__, self.what, str(ev)[:300]),
            bucket=[et.__name__, frame],
            traceback=traceback.format_exception(et, ev, tb)[-6:],
        ) from None


def execute(mod, case, ctx):
    """run one case with accounting; returns 'ok' | 'discard'; raises Violation"""
    ctx.begin()
    case = json.loads(canonical(case))  # exactly what a replay file would contain
    ctx.current_case = case
    try:
        mod.run_case(case, ctx)
    except Discard as d:
        ctx.discards[d.reason] += 1
        return "discard"
    ctx.commit(case, getattr(mod, "sample_view", None))
    return "ok"


# ------------------------------------------------------------------ shard (child process)
def run_shard(pid, tier, seed, n, shrink_budget):
    """executed in a child process; prints one JSON document on stdout"""
    t0 = time.time()
    mod = load_check(pid)
    import hypothesis
    from hypothesis import HealthCheck, Phase, given, settings

    ctx = Ctx()
    state = {"best": None, "best_len": None, "msg": None, "details": None, "deadline": None, "first": None}

    def body(case):
        if state["deadline"] is not None and time.time() > state["deadline"]:
            return  # shrink budget used up: let Hypothesis finish
        failing = state["deadline"] is not None
        c = Ctx() if failing else ctx
        try:
            execute(mod, case, c)
        except Violation as v:
            if state["deadline"] is None:
                state["deadline"] = time.time() + shrink_budget
                state["first"] = json.loads(canonical(case))
            L = len(canonical(case))
            if state["best"] is None or L <= state["best_len"]:
                state.update(best=json.loads(canonical(case)), best_len=L, msg=v.msg, details=v.details)
            raise

    phases = [Phase.generate, Phase.shrink] if shrink_budget > 0 else [Phase.generate]
    test = hypothesis.seed(seed)(
        settings(
            max_examples=n,
            deadline=None,
            database=None,
            derandomize=False,
            report_multiple_bugs=False,
            phases=phases,
            suppress_health_check=list(HealthCheck),
            print_blob=False,
        )(given(mod.strategy(tier))(body))
    )
    result = {"seed": seed, "n": n}
    try:
        test()
    except Violation:
        pass
    except BaseException as e:  # noqa
        if state["best"] is None:
            tb = "".join(traceback.format_exception(type(e), e, e.__traceback__))
            result["error"] = tb.split("Failing test case:")[0][-2500:]
    if state["best"] is not None:
        # confirm outside Hypothesis
        try:
            mod.run_case(state["best"], Ctx())
            confirmed = False
        except Violation as v:
            confirmed = True
            state["msg"], state["details"] = v.msg, v.details
        except Discard:
            confirmed = False
        if not confirmed and state["first"] is not None:
            try:
                mod.run_case(state["first"], Ctx())
            except Violation as v:
                confirmed = True
                state.update(best=state["first"], msg=v.msg, details=v.details)
            except Discard:
                pass
        if confirmed:
            result["failure"] = {"case": state["best"], "msg": state["msg"], "details": state["details"]}
        else:
            result["error"] = "failure did not reproduce outside Hypothesis (flaky oracle?): %s" % state["msg"]
    result.update(
        evaluations=ctx.evaluations,
        labels=dict(ctx.labels),
        counters=dict(ctx.counters),
        discards=dict(ctx.discards),
        nontrivial=sorted(ctx.nontrivial_hashes),
        samples=ctx.samples,
        wall_s=round(time.time() - t0, 2),
    )
    return result


# ------------------------------------------------------------------ parent
def load_known():
    p = os.path.join(VERIF, "known_findings.json")
    if not os.path.exists(p):
        return []
    return json.load(open(p))["findings"]


def write_replay(pid, failure, kind="violation"):
    os.makedirs(os.path.join(VERIF, "out"), exist_ok=True)
    doc = {"property": pid, "case": failure["case"], "msg": failure["msg"], "details": failure.get("details")}
    h = case_hash(failure["case"])
    rel = os.path.join("out", "%s-%s.json" % (pid, h))
    with open(os.path.join(VERIF, rel), "w") as f:
        f.write(json.dumps(doc, indent=1, sort_keys=True, default=_json_default))
    return rel


def replay_file(pid, path):
    mod = load_check(pid)
    doc = json.load(open(path))
    case = doc["case"] if "case" in doc else doc
    try:
        mod.run_case(case, Ctx())
    except Violation as v:
        print("replay: violation: %s" % v.msg)
        if v.details:
            print(json.dumps(v.details, indent=1, default=_json_default)[:4000])
        print("VIOLATION property=%s replay=%s" % (pid, path))
        return 1
    except Discard as d:
        print("replay: case outside the domain (%s)" % d.reason)
        return 0
    print("replay: property holds for this case")
    return 0


def main(argv=None):
    import argparse

    ap = argparse.ArgumentParser()
    ap.add_argument("pid")
    ap.add_argument("--tier", default=os.environ.get("VERIF_TIER") or "quick", choices=["quick", "thorough"])
    ap.add_argument("--replay")
    ap.add_argument("--shard", type=int)  # internal
    ap.add_argument("--n", type=int)
    ap.add_argument("--shards", type=int)
    ap.add_argument("--shrink", type=float, default=None)
    a = ap.parse_args(argv)
    pid = a.pid.upper()
    if os.environ.get("PYTHONHASHSEED") != "0":
        env = dict(os.environ, PYTHONHASHSEED="0")
        os.execve(sys.executable, [sys.executable] + sys.argv, env)
    if a.replay:
        try:
            return replay_file(pid, a.replay)
        except Exception:
            traceback.print_exc()
            return 2
    if a.shard is not None:
        try:
            res = run_shard(pid, a.tier, a.shard, a.n, a.shrink if a.shrink is not None else 60.0)
        except BaseException as e:  # noqa
            res = {"seed": a.shard, "error": "".join(traceback.format_exception(type(e), e, e.__traceback__))[-4000:]}
        sys.stdout.write("\n@@RESULT@@" + json.dumps(res, default=_json_default) + "\n")
        return 0
    try:
        return run_check(pid, a.tier, a)
    except Exception:
        traceback.print_exc()
        return 2


def run_check(pid, tier, a):
    t0 = time.time()
    seed = int(os.environ.get("VERIF_SEED", "1") or 1)
    mod = load_check(pid)
    shards, per = mod.N[tier]
    if a.shards:
        shards = a.shards
    if a.n:
        per = a.n
    shrink = a.shrink if a.shrink is not None else (45.0 if tier == "quick" else 240.0)
    known = [k for k in load_known() if k["property"] == pid]
    violations = []  # (msg, replay path)
    known_lines = []
    errors = []
    total = Ctx()

    # 1. replay tier: committed regression inputs
    rdir = os.path.join(VERIF, "replays", pid)
    nreplays = 0
    for fn in sorted(os.listdir(rdir)) if os.path.isdir(rdir) else []:
        if not fn.endswith(".json"):
            continue
        doc = json.load(open(os.path.join(rdir, fn)))
        nreplays += 1
        rel = os.path.join("replays", pid, fn)
        finding = doc.get("finding")
        entry = next((k for k in known if k["id"] == finding), None) if finding else None
        try:
            total.begin()
            mod.run_case(doc["case"], total)
            total.commit(doc["case"], getattr(mod, "sample_view", None))
            failed = None
        except Violation as v:
            failed = v
        except Discard as d:
            errors.append("replay %s is outside the domain: %s" % (rel, d.reason))
            continue
        if failed is not None:
            if entry is not None and entry.get("status") == "open":
                known_lines.append("KNOWN-FINDING: property=%s %s [%s still fails: %s]" % (pid, entry["what"], rel, failed.msg[:160]))
            else:
                violations.append((failed.msg, rel))
        elif entry is not None and entry.get("status") == "open":
            print("note: replay %s of open finding %s no longer fails" % (rel, finding))

    # 2. exhaustively enumerated slice, in-process chunks over a pool of subprocesses is not needed:
    #    enumerations are cheap and run in the shards when the module asks for it (mod.enumerate_cases)
    exhaustive = False
    if hasattr(mod, "enumerate_cases"):
        cases = mod.enumerate_cases(tier)
        if cases is not None:
            for case in cases:
                try:
                    execute(mod, case, total)
                except Violation as v:
                    violations.append((v.msg, write_replay(pid, {"case": json.loads(canonical(case)), "msg": v.msg, "details": v.details})))
                    break
            exhaustive = getattr(mod, "EXHAUSTIVE_SLICE", None) or False

    # 3. generated search, sharded
    procs = []
    budget = float(os.environ.get("VERIF_BUDGET_S", "0") or 0) or (getattr(mod, "BUDGET_S", {}).get(tier) or (900 if tier == "quick" else 7200))
    for k in range(shards):
        cmd = [sys.executable, os.path.join(VERIF, "check"), pid, "--tier", tier, "--shard", str(seed * 1000 + k), "--n", str(per), "--shrink", str(shrink)]
        procs.append(subprocess.Popen(cmd, stdout=subprocess.PIPE, stderr=subprocess.PIPE, cwd=VERIF, env=dict(os.environ, PYTHONHASHSEED="0")))
    # 3b. coverage-guided phase (thorough tier): libFuzzer/atheris drives the same strategy and oracle with ufo2ft instrumented for edge coverage
    fuzz = getattr(mod, "FUZZ", {}).get(tier, (8, max(150, per // 4)) if tier == "thorough" else None)
    if os.environ.get("VERIF_NO_FUZZ"):
        fuzz = None
    fprocs = []
    fuzz_note = None
    if fuzz:
        try:
            sys.path.insert(0, os.path.join(VERIF, ".deps"))
            import atheris  # noqa: F401
        except Exception as e:  # not installed: the phase is skipped and said so, it is not an error of the check
            fuzz_note = "coverage-guided phase skipped: atheris not importable (%s)" % type(e).__name__
            fuzz = None
    if fuzz:
        fdir = os.path.join(VERIF, "out", ".fuzz")
        os.makedirs(fdir, exist_ok=True)
        import shutil

        for k in range(fuzz[0]):
            stats = os.path.join(fdir, "%s-%d.json" % (pid, k))
            corpus = os.path.join(fdir, "%s-%d-corpus" % (pid, k))
            shutil.rmtree(corpus, ignore_errors=True)
            if os.path.exists(stats):
                os.remove(stats)
            cmd = [sys.executable, "-m", "ufoverif.fuzz", pid, tier, str(seed * 1000 + 500 + k), str(fuzz[1]), stats, corpus]
            fprocs.append((subprocess.Popen(cmd, stdout=subprocess.DEVNULL, stderr=subprocess.PIPE, cwd=VERIF, env=dict(os.environ, PYTHONHASHSEED="0")), stats, corpus))
    results = []
    inconclusive = 0
    fuzz_stats = {"shards": len(fprocs), "runs_per_shard": fuzz[1] if fuzz else 0, "executions": 0, "evaluations": 0, "corpus_files": 0, "note": fuzz_note}
    for p, stats, corpus in fprocs:
        remaining = max(5.0, budget + 30 - (time.time() - t0))
        try:
            _, err = p.communicate(timeout=remaining)
        except subprocess.TimeoutExpired:
            p.kill()
            p.communicate()
            inconclusive += 1
            err = b""
        doc = None
        if os.path.exists(stats):
            try:
                doc = json.load(open(stats))
            except Exception:
                doc = None
        if doc is None:
            # the phase is auxiliary: an infrastructure problem of the fuzzer is recorded in the evidence, it does not decide anything
            fuzz_stats["note"] = "a coverage-guided shard produced no statistics (exit %s): %s" % (p.returncode, err.decode("utf-8", "replace")[-300:])
            continue
        if p.returncode not in (0, 77, -9):
            fuzz_stats["note"] = "a coverage-guided shard exited with %s: %s" % (p.returncode, err.decode("utf-8", "replace")[-300:])
        fuzz_stats["executions"] += doc.get("executions", 0)
        fuzz_stats["evaluations"] += doc.get("evaluations", 0)
        fuzz_stats["corpus_files"] += len(os.listdir(corpus)) if os.path.isdir(corpus) else 0
        r = {k: doc.get(k) for k in ("evaluations", "labels", "counters", "discards", "nontrivial", "samples") if doc.get(k) is not None}
        r["seed"] = doc.get("seed")
        r["fuzz"] = True
        f = doc.get("failure")
        if f and f.get("case") is not None:
            # confirm outside Hypothesis / libFuzzer, like the random shards do
            try:
                mod.run_case(f["case"], Ctx())
                fuzz_stats["note"] = "a coverage-guided failure did not reproduce outside the fuzzer (state leaking between executions?): %s" % f.get("msg")
            except Violation as v:
                r["failure"] = {"case": f["case"], "msg": v.msg, "details": v.details}
            except Discard:
                pass
        results.append(r)
        import shutil

        shutil.rmtree(corpus, ignore_errors=True)
    for p in procs:
        remaining = max(5.0, budget + shrink + 30 - (time.time() - t0))
        try:
            out, err = p.communicate(timeout=remaining)
        except subprocess.TimeoutExpired:
            p.kill()
            out, err = p.communicate()
            inconclusive += 1
            continue
        out = out.decode("utf-8", "replace")
        if "@@RESULT@@" not in out:
            errors.append("shard produced no result: %s" % (err.decode("utf-8", "replace")[-2000:]))
            continue
        results.append(json.loads(out.split("@@RESULT@@", 1)[1].strip().splitlines()[0]))
    rand_evals, rand_labels = total.evaluations, collections.Counter(total.labels)  # the floors are a statement about the random generator only
    for r in results:
        if "error" in r:
            errors.append("shard %s: %s" % (r.get("seed"), r["error"]))
        if not r.get("fuzz"):
            rand_evals += r.get("evaluations", 0)
            rand_labels.update(r.get("labels", {}))
        total.evaluations += r.get("evaluations", 0)
        total.labels.update(r.get("labels", {}))
        total.counters.update(r.get("counters", {}))
        total.discards.update(r.get("discards", {}))
        total.nontrivial_hashes.update(r.get("nontrivial", []))
        for s in r.get("samples", []):
            if len(total.samples) < 5:
                total.samples.append(s)
        if "failure" in r:
            f = r["failure"]
            kid = mod.known_class(f["case"]) if hasattr(mod, "known_class") else None
            entry = next((k for k in known if k["id"] == kid and k.get("status") == "open"), None) if kid else None
            rel = write_replay(pid, f)
            if entry is not None:
                known_lines.append("KNOWN-FINDING: property=%s %s [generated case %s: %s]" % (pid, entry["what"], rel, f["msg"][:160]))
            else:
                violations.append((f["msg"], rel))

    # 4. floors: a starving generator is a harness defect
    floors = getattr(mod, "FLOORS", {})
    if rand_evals >= 50 and not violations:
        for lab, frac in floors.items():
            got = rand_labels.get(lab, 0) / rand_evals
            if got < frac:
                errors.append("generator floor not met: label %r in %.1f%% of cases (< %.1f%%)" % (lab, 100 * got, 100 * frac))

    wall = round(time.time() - t0, 2)
    seen = set()
    uniq = []
    for msg, rel in violations:
        key = msg[:60]
        if rel not in seen and key not in seen:
            seen.add(rel)
            seen.add(key)
            uniq.append((msg, rel))
    evidence = {
        "property_id": pid,
        "tier": tier,
        "seed": seed,
        "level": getattr(mod, "LEVEL", "exploration"),
        "coverage": {
            "evaluations": total.evaluations,
            "distinct_nontrivial": len(total.nontrivial_hashes),
            "rule": mod.RULE,
            "samples": total.samples or [{"note": "no non-trivial case in this run"}],
            "class_histogram": dict(sorted(total.labels.items())),
            "counters": dict(sorted(total.counters.items())),
            "discarded_by_reason": dict(sorted(total.discards.items())),
            "replays_run": nreplays,
            "shards": shards,
            "examples_per_shard": per,
            "shards_inconclusive_budget": inconclusive,
            "exhaustive": bool(exhaustive),
            "coverage_guided_phase": fuzz_stats,
            "known_findings_reported": known_lines,
            "harness_errors": errors[:5],
        },
        "assumptions": list(getattr(mod, "ASSUMPTIONS", [])),
        "wall_s": wall,
        "violations": len(uniq),
    }
    evdir = os.environ.get("VERIF_EVIDENCE_DIR") or os.path.join(VERIF, "evidence")  # tools/seedcheck.sh redirects it for mutant runs
    os.makedirs(evdir, exist_ok=True)
    with open(os.path.join(evdir, "%s.json" % pid), "w") as f:
        json.dump(evidence, f, indent=1, sort_keys=True, default=_json_default)
        f.write("\n")
    print("%s tier=%s seed=%s evaluations=%d distinct_nontrivial=%d discards=%d wall=%.1fs" % (pid, tier, seed, total.evaluations, len(total.nontrivial_hashes), sum(total.discards.values()), wall))
    if total.labels:
        print("classes: " + ", ".join("%s=%d" % kv for kv in sorted(total.labels.items())))
    if total.discards:
        print("discards: " + ", ".join("%s=%d" % kv for kv in sorted(total.discards.items())))
    for line in known_lines:
        print(line)
    for msg, rel in uniq:
        print("violation: %s" % msg[:500])
        print("VIOLATION property=%s replay=%s" % (pid, rel))
    if uniq:
        return 1
    if errors:
        for e in errors[:3]:
            print("HARNESS ERROR: %s" % (e if len(e) < 1800 else e[:900] + "\n...\n" + e[-700:]), file=sys.stderr)
        if len(errors) > 3:
            print("HARNESS ERROR: ... and %d more" % (len(errors) - 3), file=sys.stderr)
        return 2
    if inconclusive:
        print("note: %d shard(s) stopped by the time budget (inconclusive, not a violation)" % inconclusive)
    return 0
