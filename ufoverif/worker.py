"""Persistent worker process for C08: started with a chosen PYTHONHASHSEED, reads JSON requests on stdin, answers with the
digests of the fonts compiled from a freshly built source."""
import json
import os
import sys

sys.path.insert(0, os.path.dirname(os.path.dirname(os.path.abspath(__file__))))
from ufoverif.runner import setup_imports  # noqa: E402

setup_imports()
from ufoverif.checks import c08  # noqa: E402


def main():
    for line in sys.stdin:
        req = json.loads(line)
        try:
            out = {"digests": c08.compile_fresh(req["source"], req["module"], req["op"], req.get("mode", "mem"))}
        except c08.Rejected as e:
            out = {"exc": str(e)}
        except Exception as e:  # noqa
            out = {"exc": "%s: %s" % (type(e).__name__, str(e)[:200])}
        sys.stdout.write(json.dumps(out) + "\n")
        sys.stdout.flush()


if __name__ == "__main__":
    main()
