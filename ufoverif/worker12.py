"""Worker process for C12: compiles one font with one option combination and answers with the saved bytes (base64). It exists so that the parent
can put a wall-clock bound on third-party subroutinisers (compreffor needs minutes on a few small generated fonts): a request that is not answered
in time is counted as inconclusive and the worker is replaced - never a violation."""
import base64
import io
import json
import os
import sys

sys.path.insert(0, os.path.dirname(os.path.dirname(os.path.abspath(__file__))))
from ufoverif.runner import setup_imports  # noqa: E402

setup_imports()


def main():
    import logging
    import warnings

    warnings.filterwarnings("ignore")
    logging.disable(logging.CRITICAL)
    import ufo2ft

    from ufoverif import spec as S

    for line in sys.stdin:
        req = json.loads(line)
        try:
            t = ufo2ft.compileOTF(S.build(req["spec"], S.ufo_module(req["module"])), optimizeCFF=req["opt"], subroutinizer=req["sub"], cffVersion=req["ver"], useProductionNames=False)
            b = io.BytesIO()
            t.save(b)
            out = {"font": base64.b64encode(b.getvalue()).decode()}
        except NotImplementedError:
            out = {"not_implemented": True}
        except Exception as e:  # noqa
            import traceback

            out = {"exc": "%s: %s" % (type(e).__name__, str(e)[:300]), "trace": traceback.format_exc()[-1500:]}
        sys.stdout.write(json.dumps(out) + "\n")
        sys.stdout.flush()


if __name__ == "__main__":
    main()
