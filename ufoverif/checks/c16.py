"""C16 - any valid font info compiles; explicit values win, absent ones fall back."""
import calendar
import io
import math
import time
import unicodedata

from hypothesis import strategies as st

from ufoverif import snapshot as SN, spec as S
from ufoverif.refmodel import ot_round as R
from ufoverif.runner import Discard, Violation, guard

ID = "C16"
RULE = (
    "case = independent present/absent choice for ~95 UFO3 fontinfo attributes with spec-valid values (strings over all of Unicode minus controls that XML cannot carry, "
    "numbers integral/fractional/negative, bit lists incl. duplicated bits, name records, gasp records) x {TTF, OTF} x {ufoLib2, defcon}; the font is compiled, then - on the "
    "same source object - compiled again after switching styleMapStyleName; plus an enumerated slice: every Unicode scalar value (quick tier: BMP) as a one-character family "
    "name through the PostScript-name fallback; plus variable-font cases: two masters sharing a generated info, a designspace whose lib (document-level or on an explicit "
    "variable-font descriptor) carries a generated public.fontInfo override, compiled to a variable TTF / CFF2 and compared with the restatement applied to (info updated with the override). Oracle = compile/save/reload succeed; a local restatement of (attribute -> table field, transformation) and of every documented "
    "fallback formula (head, hhea, vhea, OS/2 incl. panose, post, gasp, name IDs 0-22 and name records, CFF top dict and private dict - strictly without the subroutinizer, "
    "modulo arrays it omits with it) is compared with the reloaded tables; the generated PostScript name matches "
    "^[!-~]+$ without []{}<>()/%; the source info is unchanged after compiling. Non-trivial = >= 10 attributes present and >= 1 non-ASCII string. Distinct = case hash."
)
ASSUMPTIONS = [
    "value ranges follow the UFO3 specification as enforced by ufoLib's validators; strings exclude C0 controls other than TAB/LF/CR (an XML plist cannot carry them)",
    "fields whose fallback would overflow their binary range (usWinAscent from a negative ascender + line gap, 16-bit signed metrics) are outside the domain: discarded and counted",
    "bit 1 of head.flags is recomputed by fontTools for glyf fonts and masked for TrueType",
    "postscriptStemSnapH/V are strictly increasing (the order the Type 1/CFF specification prescribes, which the UFO3 specification refers to)",
    "a variable-font override of vertical typo metrics or gasp records is only compared when the default master already produces a vhea / gasp table (the override mechanism edits existing tables)",
]
N = {"quick": (8, 250), "thorough": (16, 1200)}
FLOORS = {"non-ascii-string": 0.18, "otf": 0.17, ">=10-attributes": 0.15, "vf-info-override": 0.08, "vf-override-replaces-explicit": 0.07, "otf-unsubroutinized": 0.1}  # a third of the measured frequency: a starving generator is a harness error, sampling noise is not

XML_OK = st.characters(blacklist_categories=("Cs",), blacklist_characters="".join(chr(i) for i in range(32) if i not in (9, 10, 13)) + "\x7f￾￿")
text = st.text(alphabet=XML_OK, min_size=1, max_size=12)
nametext = st.one_of(text, st.text(alphabet=st.sampled_from(list("Aa ()[]{}<>/% （⑴éЖ中\U0001F600\t-.~!|_")), min_size=1, max_size=8))
asciiname = st.text(alphabet="ABCDEFabcdef0123456789-~!|_", min_size=1, max_size=20)
num = st.one_of(st.integers(-2000, 2000), st.integers(-4000, 4000).map(lambda k: k / 2), st.floats(-2000, 2000, allow_nan=False).map(lambda v: round(v, 3)))
posnum = st.one_of(st.integers(0, 3000), st.integers(0, 6000).map(lambda k: k / 2))
intv = st.integers(-2000, 2000)


def bits(n, dup=True):
    base = st.lists(st.integers(0, n), unique=True, max_size=6).map(sorted)
    if not dup:
        return base
    return st.one_of(base, base, base, st.lists(st.integers(0, n), min_size=2, max_size=4).map(lambda l: sorted(l + l[:1])))


def evenlist(lo, hi):
    # zone edges may be fractional in a UFO; the CFF private dict stores them rounded
    return st.lists(st.one_of(intv, intv, st.integers(-4000, 4000).map(lambda k: k / 4)), min_size=lo, max_size=hi).map(lambda l: sorted(l)[: len(l) // 2 * 2])


# style names that differ from the four style-map styles only in case: the typographic names (IDs 16/17) are dropped only when they equal IDs 1/2 exactly
stylename = st.one_of(nametext, nametext, st.sampled_from(["Regular", "regular", "BOLD", "Bold", "italic", "Italic", "ITALIC", "Bold Italic", "bold italic", "Bold ITALIC", "BOLD ITALIC", "bOLD"]))

ATTRS = {
    "familyName": nametext, "styleName": stylename, "styleMapFamilyName": text, "styleMapStyleName": st.sampled_from(["regular", "bold", "italic", "bold italic"]),
    "versionMajor": st.integers(0, 200), "versionMinor": st.one_of(st.integers(0, 999), st.integers(0, 999), st.sampled_from([1000, 1234, 20000])), "copyright": text, "trademark": text,
    "unitsPerEm": st.sampled_from([16, 1000, 1024, 2048, 16384, 1000.0]), "descender": num, "xHeight": num, "capHeight": num, "ascender": num,
    "italicAngle": st.one_of(st.integers(-30, 30), st.floats(-45, 45).map(lambda v: round(v, 2))),
    "openTypeHeadCreated": st.sampled_from(["2020/01/02 03:04:05", "1970/01/01 00:00:00", "2038/01/19 03:14:08"]),
    "openTypeHeadLowestRecPPEM": st.integers(0, 100), "openTypeHeadFlags": bits(14),
    "openTypeHheaAscender": intv, "openTypeHheaDescender": intv, "openTypeHheaLineGap": intv, "openTypeHheaCaretSlopeRise": intv, "openTypeHheaCaretSlopeRun": intv, "openTypeHheaCaretOffset": intv,
    "openTypeNameDesigner": text, "openTypeNameDesignerURL": text, "openTypeNameManufacturer": text, "openTypeNameManufacturerURL": text, "openTypeNameLicense": text, "openTypeNameLicenseURL": text,
    "openTypeNameVersion": st.one_of(text, st.sampled_from(["Version 1.000", "release 7", "Version snapshot 2.1", "no. 12", "1.5 Version 2", "version 3", "Versionen 2", " 1"])), "openTypeNameUniqueID": text, "openTypeNameDescription": text, "openTypeNamePreferredFamilyName": nametext, "openTypeNamePreferredSubfamilyName": stylename,
    "openTypeNameCompatibleFullName": text, "openTypeNameSampleText": text, "openTypeNameWWSFamilyName": text, "openTypeNameWWSSubfamilyName": text,
    "openTypeNameRecords": st.lists(st.fixed_dictionaries({"nameID": st.integers(0, 300), "platformID": st.just(3), "encodingID": st.just(1), "languageID": st.sampled_from([0x409, 0x407]), "string": text}), max_size=2),
    "openTypeOS2WidthClass": st.integers(1, 9), "openTypeOS2WeightClass": st.integers(1, 1000), "openTypeOS2Selection": st.lists(st.sampled_from([1, 2, 3, 4, 7, 8, 9]), unique=True, max_size=3).map(sorted),
    "openTypeOS2VendorID": st.text(alphabet="ABCDxyz0 ", min_size=1, max_size=4), "openTypeOS2Panose": st.lists(st.integers(0, 15), min_size=10, max_size=10),
    "openTypeOS2FamilyClass": st.tuples(st.integers(0, 14), st.integers(0, 15)).map(list), "openTypeOS2UnicodeRanges": bits(127), "openTypeOS2CodePageRanges": bits(63),
    "openTypeOS2TypoAscender": intv, "openTypeOS2TypoDescender": intv, "openTypeOS2TypoLineGap": intv, "openTypeOS2WinAscent": st.integers(0, 3000), "openTypeOS2WinDescent": st.integers(0, 3000),
    "openTypeOS2Type": st.one_of(st.lists(st.sampled_from([0, 1, 2, 3, 8, 9]), unique=True, max_size=2).map(sorted), st.sampled_from([[3, 3], [2, 2, 8], [1, 1]])),
    "openTypeOS2SubscriptXSize": intv, "openTypeOS2SubscriptYSize": intv, "openTypeOS2SubscriptXOffset": intv, "openTypeOS2SubscriptYOffset": intv,
    "openTypeOS2SuperscriptXSize": intv, "openTypeOS2SuperscriptYSize": intv, "openTypeOS2SuperscriptXOffset": intv, "openTypeOS2SuperscriptYOffset": intv,
    "openTypeOS2StrikeoutSize": intv, "openTypeOS2StrikeoutPosition": intv,
    "openTypeVheaVertTypoAscender": intv, "openTypeVheaVertTypoDescender": intv, "openTypeVheaVertTypoLineGap": intv, "openTypeVheaCaretSlopeRise": intv, "openTypeVheaCaretSlopeRun": intv, "openTypeVheaCaretOffset": intv,
    "postscriptFontName": asciiname, "postscriptFullName": nametext, "postscriptSlantAngle": num, "postscriptUniqueID": st.integers(0, 10**6), "postscriptUnderlineThickness": num, "postscriptUnderlinePosition": num,
    "postscriptIsFixedPitch": st.booleans(), "postscriptBlueValues": evenlist(2, 6), "postscriptOtherBlues": evenlist(2, 4), "postscriptFamilyBlues": evenlist(2, 4), "postscriptFamilyOtherBlues": evenlist(2, 4),
    "postscriptStemSnapH": st.lists(st.integers(1, 300), min_size=1, max_size=4, unique=True).map(sorted), "postscriptStemSnapV": st.lists(st.integers(1, 300), min_size=1, max_size=4, unique=True).map(sorted),
    "postscriptBlueFuzz": st.integers(0, 5), "postscriptBlueShift": st.integers(0, 20), "postscriptBlueScale": st.floats(0.001, 0.2).map(lambda v: round(v, 4)), "postscriptForceBold": st.booleans(),
    "postscriptDefaultWidthX": posnum, "postscriptNominalWidthX": posnum, "postscriptWeightName": nametext, "postscriptDefaultCharacter": st.just("a"), "postscriptWindowsCharacterSet": st.integers(1, 20),
    "openTypeGaspRangeRecords": st.just([{"rangeMaxPPEM": 8, "rangeGaspBehavior": [0, 1]}, {"rangeMaxPPEM": 65535, "rangeGaspBehavior": [1]}]),
    "year": st.integers(1990, 2030), "note": text, "macintoshFONDFamilyID": st.integers(0, 1000), "macintoshFONDName": text,
}


@st.composite
def _case(draw):
    info = draw(st.fixed_dictionaries({}, optional=ATTRS))
    return {"kind": "info", "info": info, "module": draw(st.sampled_from(["ufoLib2", "defcon"])), "flavour": draw(st.sampled_from(["otf", "ttf"])),
            "second_style": draw(st.sampled_from([None, None, "bold", "italic", "regular"])), "optimizeCFF": draw(st.sampled_from([0, 2, 2]))}


OVERRIDABLE = [k for k in ATTRS if k not in ("unitsPerEm", "postscriptDefaultWidthX", "postscriptNominalWidthX", "postscriptDefaultCharacter", "openTypeNameRecords",
                                             "openTypeVheaVertTypoAscender", "openTypeVheaVertTypoDescender", "openTypeVheaVertTypoLineGap")]


@st.composite
def _vfcase(draw):
    base = draw(st.fixed_dictionaries({}, optional=ATTRS))
    over = draw(st.fixed_dictionaries({}, optional={k: ATTRS[k] for k in OVERRIDABLE}).filter(lambda d: len(d) >= 1))
    return {"kind": "vfinfo", "info": base, "override": over, "module": draw(st.sampled_from(["ufoLib2", "defcon"])), "flavour": draw(st.sampled_from(["otf", "ttf"])),
            "explicit_vf": draw(st.booleans())}


def strategy(tier):
    return st.one_of(_case(), _case(), _vfcase())


def enumerate_cases(tier):
    """every Unicode scalar value as a single-character family name (quick: the BMP), in chunks"""
    hi = 0x110000 if tier == "thorough" else 0x10000
    step = 0x1000
    for lo in range(0, hi, step):
        yield {"kind": "psname", "lo": lo, "hi": min(lo + step, hi)}


EXHAUSTIVE_SLICE = True


def sample_view(case):
    if case["kind"] == "psname":
        return case
    if case["kind"] == "vfinfo":
        return {"kind": "vfinfo", "module": case["module"], "flavour": case["flavour"], "explicit_vf": case["explicit_vf"], "attributes_present": len(case["info"]),
                "override": {k: case["override"][k] for k in sorted(case["override"])[:25]}}
    return {"module": case["module"], "flavour": case["flavour"], "second_style": case["second_style"], "attributes_present": len(case["info"]),
            "info": {k: case["info"][k] for k in sorted(case["info"])[:25]}}


def bitsnum(l, start, length):
    return sum(1 << (i - start) for i in set(l) if start <= i < start + length)


ALLOWED = {chr(i) for i in range(33, 127)}
EXC = set("[](){}<>/%")


def ps_ok(s):
    return bool(s) and all(c in ALLOWED and c not in EXC for c in s)


def expected(i):
    g = lambda k: i.get(k)
    e = {}
    upm = g("unitsPerEm") or 1000
    fam = g("familyName") or "New Font"
    sty = g("styleName") or "Regular"
    asc = g("ascender") if g("ascender") is not None else R(upm * 0.8)
    desc = g("descender") if g("descender") is not None else -R(upm * 0.2)
    cap = g("capHeight") if g("capHeight") is not None else R(upm * 0.7)
    xh = g("xHeight") if g("xHeight") is not None else R(upm * 0.5)
    ital = g("italicAngle") if g("italicAngle") is not None else 0
    pfam = g("openTypeNamePreferredFamilyName") or fam
    psub = g("openTypeNamePreferredSubfamilyName") or sty
    sms = g("styleMapStyleName")
    if not sms:
        sms = psub.strip().lower() if psub.strip().lower() in ("regular", "bold", "italic", "bold italic") else "regular"
    smf = g("styleMapFamilyName")
    if not smf:
        s2 = g("styleMapStyleName") or psub
        s2 = "" if s2.lower() in ("regular", "bold", "italic", "bold italic") else s2
        smf = (pfam + " " + s2).strip()
    tlg = g("openTypeOS2TypoLineGap") if g("openTypeOS2TypoLineGap") is not None else max(int(upm * 1.2) - asc + desc, 0)
    e["head.unitsPerEm"] = R(upm)
    vM = g("versionMajor") or 0
    vm = g("versionMinor") or 0
    e["head.fontRevision"] = round(float("%d.%03d" % (vM, vm)), 3)
    e["head.lowestRecPPEM"] = R(g("openTypeHeadLowestRecPPEM") if g("openTypeHeadLowestRecPPEM") is not None else 6)
    e["head.flags"] = bitsnum(g("openTypeHeadFlags") if g("openTypeHeadFlags") is not None else [0, 1], 0, 16)
    e["head.macStyle"] = {"bold": 1, "italic": 2, "bold italic": 3}.get(sms, 0)
    created = g("openTypeHeadCreated")
    e["head.created"] = (calendar.timegm(time.strptime(created, "%Y/%m/%d %H:%M:%S")) if created else 1600000000) + 2082844800
    e["hhea.ascent"] = R(g("openTypeHheaAscender") if g("openTypeHheaAscender") is not None else asc + tlg)
    e["hhea.descent"] = R(g("openTypeHheaDescender") if g("openTypeHheaDescender") is not None else desc)
    e["hhea.lineGap"] = R(g("openTypeHheaLineGap") or 0)
    run_x = g("openTypeHheaCaretSlopeRun")
    rise_x = g("openTypeHheaCaretSlopeRise")
    if rise_x is not None:
        rise = rise_x
    elif ital != 0 and run_x is not None:
        rise = R(run_x / math.tan(math.radians(-ital)))
    else:
        rise = upm
    if run_x is not None:
        run = run_x
    elif ital != 0:
        run = R(math.tan(math.radians(-ital)) * rise)
    else:
        run = 0
    e["hhea.caretSlopeRise"] = R(rise)
    e["hhea.caretSlopeRun"] = R(run)
    e["hhea.caretOffset"] = R(g("openTypeHheaCaretOffset") or 0)
    e["OS/2.usWeightClass"] = g("openTypeOS2WeightClass") or 400
    e["OS/2.usWidthClass"] = g("openTypeOS2WidthClass") or 5
    e["OS/2.fsType"] = bitsnum(g("openTypeOS2Type") if g("openTypeOS2Type") is not None else [2], 0, 16)
    e["OS/2.sTypoAscender"] = R(g("openTypeOS2TypoAscender") if g("openTypeOS2TypoAscender") is not None else asc)
    e["OS/2.sTypoDescender"] = R(g("openTypeOS2TypoDescender") if g("openTypeOS2TypoDescender") is not None else desc)
    e["OS/2.sTypoLineGap"] = R(tlg)
    e["OS/2.usWinAscent"] = R(g("openTypeOS2WinAscent") if g("openTypeOS2WinAscent") is not None else asc + tlg)
    e["OS/2.usWinDescent"] = R(g("openTypeOS2WinDescent") if g("openTypeOS2WinDescent") is not None else abs(desc))
    e["OS/2.sxHeight"] = R(xh)
    e["OS/2.sCapHeight"] = R(cap)
    sel = list(g("openTypeOS2Selection") or []) + {"regular": [6], "bold": [5], "italic": [0], "bold italic": [0, 5]}[sms]
    e["OS/2.fsSelection"] = bitsnum(sel, 0, 16)
    e["OS/2.achVendID"] = (g("openTypeOS2VendorID") or "NONE").ljust(4)
    fc = g("openTypeOS2FamilyClass") or [0, 0]
    e["OS/2.sFamilyClass"] = (fc[0] << 8) + fc[1]
    ur = g("openTypeOS2UnicodeRanges")
    if ur is not None:
        for k in range(4):
            e["OS/2.ulUnicodeRange%d" % (k + 1)] = bitsnum(ur, 32 * k, 32)
    cr = g("openTypeOS2CodePageRanges")
    if cr is not None:
        e["OS/2.ulCodePageRange1"] = bitsnum(cr, 0, 32)
        e["OS/2.ulCodePageRange2"] = bitsnum(cr, 32, 32)
    ssx = g("openTypeOS2SubscriptXSize")
    e["OS/2.ySubscriptXSize"] = R(ssx if ssx is not None else upm * 0.65)
    ssy = g("openTypeOS2SubscriptYSize")
    e["OS/2.ySubscriptYSize"] = R(ssy if ssy is not None else upm * 0.6)
    syo = g("openTypeOS2SubscriptYOffset")
    e["OS/2.ySubscriptYOffset"] = R(syo if syo is not None else upm * 0.075)
    adj = lambda off, ang: off * math.tan(math.radians(-ang)) if ang else 0
    sxo = g("openTypeOS2SubscriptXOffset")
    e["OS/2.ySubscriptXOffset"] = R(sxo if sxo is not None else adj(-e["OS/2.ySubscriptYOffset"], float(ital)))
    v = g("openTypeOS2SuperscriptXSize")
    e["OS/2.ySuperscriptXSize"] = R(v if v is not None else e["OS/2.ySubscriptXSize"])
    v = g("openTypeOS2SuperscriptYSize")
    e["OS/2.ySuperscriptYSize"] = R(v if v is not None else e["OS/2.ySubscriptYSize"])
    v = g("openTypeOS2SuperscriptYOffset")
    e["OS/2.ySuperscriptYOffset"] = R(v if v is not None else upm * 0.35)
    v = g("openTypeOS2SuperscriptXOffset")
    e["OS/2.ySuperscriptXOffset"] = R(v if v is not None else adj(e["OS/2.ySuperscriptYOffset"], float(ital)))
    ut = g("postscriptUnderlineThickness") if g("postscriptUnderlineThickness") is not None else upm * 0.05
    up = g("postscriptUnderlinePosition") if g("postscriptUnderlinePosition") is not None else upm * -0.075
    v = g("openTypeOS2StrikeoutSize")
    e["OS/2.yStrikeoutSize"] = R(v if v is not None else ut)
    v = g("openTypeOS2StrikeoutPosition")
    e["OS/2.yStrikeoutPosition"] = R(v if v is not None else (xh * 0.6 if xh else upm * 0.22))
    e["post.underlinePosition"] = R(up)
    e["post.underlineThickness"] = R(ut)
    e["post.isFixedPitch"] = int(bool(g("postscriptIsFixedPitch")))
    e["post.italicAngle"] = float(ital)
    e["_panose"] = list(g("openTypeOS2Panose") or [0] * 10)
    if all(g(k) is not None for k in ("openTypeVheaVertTypoAscender", "openTypeVheaVertTypoDescender", "openTypeVheaVertTypoLineGap")):
        e["_vhea"] = {"ascent": R(g("openTypeVheaVertTypoAscender")), "descent": R(g("openTypeVheaVertTypoDescender")), "lineGap": R(g("openTypeVheaVertTypoLineGap")),
                      "caretSlopeRise": R(g("openTypeVheaCaretSlopeRise") or 0), "caretSlopeRun": R(g("openTypeVheaCaretSlopeRun") if g("openTypeVheaCaretSlopeRun") is not None else 1),
                      "caretOffset": R(g("openTypeVheaCaretOffset") or 0)}
    else:
        e["_vhea"] = None
    gasp = g("openTypeGaspRangeRecords")
    e["_gasp"] = {r["rangeMaxPPEM"]: bitsnum(r["rangeGaspBehavior"], 0, 4) for r in gasp} if gasp else None
    # CFF top dict / private dict
    blues = {k: [R(v) for v in (g("postscript" + k) or [])] for k in ("BlueValues", "OtherBlues", "FamilyBlues", "FamilyOtherBlues")}
    bscale = g("postscriptBlueScale")
    if bscale is None:
        mz = 0
        for key in ("postscriptBlueValues", "postscriptOtherBlues"):
            l = g(key) or []
            for x, y in zip(l[:-1:2], l[1::2]):
                mz = max(mz, abs(y - x))
        bscale = 3 / (4 * mz) if mz else 0.039625
    private = {}
    if any(blues.values()):
        private.update(BlueFuzz=R(g("postscriptBlueFuzz") or 0), BlueShift=R(g("postscriptBlueShift") if g("postscriptBlueShift") is not None else 7), BlueScale=bscale,
                       ForceBold=int(bool(g("postscriptForceBold"))))
        private.update({k: v for k, v in blues.items() if v})
    sh, sv = [R(v) for v in (g("postscriptStemSnapH") or [])], [R(v) for v in (g("postscriptStemSnapV") or [])]
    if sh and sv:
        private.update(StemSnapH=sh, StdHW=sh[0], StemSnapV=sv, StdVW=sv[0])
    if g("postscriptDefaultWidthX") is not None or g("postscriptNominalWidthX") is not None:
        # explicit widths win (the widths are optimised only when both are absent); the absent one of the two takes its documented fallback (200 / 0)
        private.update(defaultWidthX=R(g("postscriptDefaultWidthX")) if g("postscriptDefaultWidthX") is not None else 200,
                       nominalWidthX=R(g("postscriptNominalWidthX")) if g("postscriptNominalWidthX") is not None else 0)
    e["_cff"] = {"version": "%d.%d" % (vM, vm), "Notice": g("trademark") or "", "Copyright": g("copyright") or "", "FullName": g("postscriptFullName") or "%s %s" % (pfam, psub), "FamilyName": pfam,
                 "Weight": g("postscriptWeightName"), "isFixedPitch": int(bool(g("postscriptIsFixedPitch"))), "ItalicAngle": float(ital), "UnderlinePosition": R(up), "UnderlineThickness": R(ut),
                 "FontMatrix": [1.0 / R(upm), 0, 0, 1.0 / R(upm), 0, 0], "private": private}
    ver = g("openTypeNameVersion") or "Version %d.%s" % (vM, str(vm).zfill(3))
    psn_explicit = g("postscriptFontName")
    vend = g("openTypeOS2VendorID") or "NONE"
    names = {0: g("copyright"), 1: smf, 2: sms.title(), 4: "%s %s" % (pfam, psub), 5: ver, 7: g("trademark"), 8: g("openTypeNameManufacturer"), 9: g("openTypeNameDesigner"),
             10: g("openTypeNameDescription"), 11: g("openTypeNameManufacturerURL"), 12: g("openTypeNameDesignerURL"), 13: g("openTypeNameLicense"), 14: g("openTypeNameLicenseURL"),
             16: pfam, 17: psub, 18: g("openTypeNameCompatibleFullName"), 19: g("openTypeNameSampleText"), 21: g("openTypeNameWWSFamilyName"), 22: g("openTypeNameWWSSubfamilyName")}
    if names[1] == names[16] and names[2] == names[17]:
        del names[16], names[17]
    e["names"] = {k: v for k, v in names.items() if v}
    e["_psname_explicit"] = psn_explicit
    e["_ps_core"] = "".join(c for c in "%s-%s" % (pfam, psub) if c in ALLOWED and c not in EXC)  # what the documented fallback cannot drop: the legal characters of "family-style"
    e["_uid_explicit"] = g("openTypeNameUniqueID")
    e["_uid_parts"] = (ver.replace("Version ", ""), vend)
    return e


def check_tables(t, e, info, flavour, label):
    for k, v in e.items():
        if k == "names" or k.startswith("_"):
            continue
        tag, attr = k.split(".")
        got = getattr(t[tag], attr)
        if k == "head.flags" and flavour == "ttf":
            got |= 2
            v |= 2
        if isinstance(v, float):
            if abs(got - v) >= 1e-3:
                raise Violation("table field differs from the explicit value / documented fallback (%s)" % label, field=k, got=got, expected=v)
        elif got != v:
            raise Violation("table field differs from the explicit value / documented fallback (%s)" % label, field=k, got=got, expected=v,
                            related={x: info.get(x) for x in info if x.lower().replace("opentype", "").startswith(("os2", "hhea", "head", "asc", "desc", "units", "style", "italic", "xh", "cap", "post"))})


PS_PLAIN = {chr(i) for i in range(32, 127)} - EXC


# the subroutinizer (cffsubr/tx) re-serialises the private dict and omits arrays it considers redundant or malformed (a one-element StemSnap equal to Std[HV]W, non-increasing
# StemSnap, FamilyOtherBlues without FamilyBlues, ...): with it on, a stored array must equal the expectation but may be absent; without it every key is compared strictly
TX_MAY_DROP = ("StemSnapH", "StemSnapV", "FamilyBlues", "FamilyOtherBlues", "BlueValues", "OtherBlues")


def check_extra(t, e, flavour, label, vf=False, subroutinized=True):
    got = list(t["OS/2"].panose.__dict__.values()) if hasattr(t["OS/2"].panose, "__dict__") else None
    pan = t["OS/2"].panose
    got = [pan.bFamilyType, pan.bSerifStyle, pan.bWeight, pan.bProportion, pan.bContrast, pan.bStrokeVariation, pan.bArmStyle, pan.bLetterForm, pan.bMidline, pan.bXHeight]
    if got != e["_panose"]:
        raise Violation("OS/2 panose differs from the explicit value / documented fallback (%s)" % label, got=got, expected=e["_panose"])
    if e["_vhea"] is not None and (not vf or "vhea" in t):
        if "vhea" not in t:
            raise Violation("vertical typo metrics are all set but no vhea table was compiled (%s)" % label)
        for k, v in e["_vhea"].items():
            if getattr(t["vhea"], k) != v:
                raise Violation("vhea field differs from the explicit value / documented fallback (%s)" % label, field=k, got=getattr(t["vhea"], k), expected=v)
    if e["_gasp"] is not None and flavour == "ttf" and (not vf or "gasp" in t):
        if "gasp" not in t or dict(t["gasp"].gaspRange) != e["_gasp"]:
            raise Violation("gasp table differs from openTypeGaspRangeRecords (%s)" % label, got=dict(t["gasp"].gaspRange) if "gasp" in t else None, expected=e["_gasp"])
    if flavour == "otf" and "CFF " in t:
        td = t["CFF "].cff.topDictIndex[0]
        c = e["_cff"]
        for k, v in c.items():
            if k == "private":
                continue
            got = getattr(td, k, None)
            if k in ("Notice", "Copyright"):
                if not set(v) <= PS_PLAIN:
                    continue  # reduced to ASCII / delimiters dropped: checked for ASCII-ness by the caller
            elif isinstance(v, str) and not v.isascii():
                continue
            if k == "FontMatrix":
                ok = all(abs(a - b) <= 1e-4 * abs(b) for a, b in zip(got, v))  # CFF reals carry few digits
            elif isinstance(v, float):
                ok = got is not None and abs(got - v) < 1e-3
            elif isinstance(v, str) or v is None:
                ok = (got or "") == (v or "")  # an empty string is not stored
            else:
                ok = got == v
            if not ok:
                raise Violation("CFF top dict field differs from the explicit value / documented fallback (%s)" % label, field=k, got=got, expected=v)
        priv = td.Private
        for k, v in c["private"].items():
            got = getattr(priv, k, None)  # resolves CFF defaults that are not stored
            if got is None and subroutinized and k in TX_MAY_DROP:
                continue
            if subroutinized and k in ("defaultWidthX", "nominalWidthX"):
                continue  # the subroutiniser (cffsubr/tx) recomputes the two widths
            if isinstance(v, float):
                ok = got is not None and abs(got - v) < 1e-4 * max(1, abs(v))
            else:
                ok = got == v
            if not ok:
                raise Violation("CFF private dict field differs from the explicit value / documented fallback (%s)" % label, field=k, got=got, expected=v)


def run_psname(case, ctx):
    import ufoLib2
    from ufo2ft.fontInfoData import postscriptFontNameFallback

    f = ufoLib2.Font()
    f.info.styleName = "Regular"
    bad = []
    for cp in range(case["lo"], case["hi"]):
        if 0xD800 <= cp <= 0xDFFF:
            continue
        f.info.familyName = "A" + chr(cp)
        name = postscriptFontNameFallback(f.info)
        if not ps_ok(name):
            bad.append(cp)
        elif chr(cp) in ALLOWED and chr(cp) not in EXC and name != "A" + chr(cp) + "-Regular":
            bad.append(cp)  # a legal character is kept as it is
    ctx.count("psname-characters-enumerated", case["hi"] - case["lo"])
    if bad:
        raise Violation("generated PostScript font name contains a space, control, delimiter or non-ASCII character, or lost a legal one", family_name_characters=["U+%04X" % c for c in bad[:40]], count=len(bad))
    ctx.nontrivial()


def in_range(e):
    if not (0 <= e["OS/2.usWinAscent"] <= 65535 and 0 <= e["OS/2.usWinDescent"] <= 65535):
        raise Discard("fallback for an unsigned OS/2 win metric is out of range")
    if not all(-32768 <= e[k] <= 32767 for k in e if not k.startswith("_") and k != "names" and isinstance(e[k], int) and not k.startswith(("head.created", "head.flags", "OS/2.us", "OS/2.fs", "OS/2.ul"))):
        raise Discard("a derived metric exceeds the signed 16-bit range")


def run_vf(case, ctx):
    """variable font whose designspace lib carries public.fontInfo overrides: every overridden attribute (and every fallback that derives from one) must show in the VF"""
    import ufo2ft
    from fontTools.designspaceLib import AxisDescriptor, DesignSpaceDocument, SourceDescriptor, VariableFontDescriptor, RangeAxisSubsetDescriptor
    from fontTools.ttLib import TTFont

    base, over, flavour = dict(case["info"]), dict(case["override"]), case["flavour"]
    merged = dict(base)
    merged.update(over)
    in_range(expected(base))
    e = expected(merged)
    in_range(e)
    module = S.ufo_module(case["module"])
    fonts = []
    for k in (0, 1):
        spec = {"info": base, "glyphs": [{"name": "a", "width": 500 + 100 * k, "unicodes": [0x61], "contours": [[[0, 0, "line"], [100 + 50 * k, 0, "line"], [100, 100 + 20 * k, "line"]]]},
                                         {"name": ".notdef", "width": 500, "contours": []}]}
        fonts.append(S.build(spec, module))
    ds = DesignSpaceDocument()
    a = AxisDescriptor()
    a.name, a.tag, a.minimum, a.default, a.maximum = "Weight", "wght", 400, 400, 700
    ds.addAxis(a)
    for k, f in enumerate(fonts):
        s = SourceDescriptor()
        s.font, s.name, s.location = f, "master%d" % k, {"Weight": 400 + 300 * k}
        ds.addSource(s)
    if case["explicit_vf"]:
        vf = VariableFontDescriptor(name="TestVF", axisSubsets=[RangeAxisSubsetDescriptor(name="Weight")])
        vf.lib["public.fontInfo"] = over
        ds.addVariableFont(vf)
    else:
        ds.lib["public.fontInfo"] = over
    before = [SN.font_snapshot(f)["info"] for f in fonts]
    comp = ufo2ft.compileVariableCFF2 if flavour == "otf" else ufo2ft.compileVariableTTF
    with guard("compile a variable font with public.fontInfo overrides"):
        t = comp(ds)
        b = io.BytesIO()
        t.save(b)
        t = TTFont(io.BytesIO(b.getvalue()))
    if [SN.font_snapshot(f)["info"] for f in fonts] != before:
        raise Violation("compiling a variable font with info overrides modified a source font's info")
    check_tables(t, e, merged, flavour, "variable font with public.fontInfo overrides")
    check_extra(t, e, flavour, "variable font with public.fontInfo overrides", vf=True)
    recs = {(r["nameID"], r["platformID"], r["encodingID"], r["languageID"]) for r in merged.get("openTypeNameRecords", [])}
    names = dict(e["names"])
    if e["_uid_explicit"]:
        names[3] = e["_uid_explicit"]
    if e["_psname_explicit"]:
        names[6] = e["_psname_explicit"]
    for nid, v in names.items():
        if any(k[0] == nid and k[1] == 3 and k[3] == 0x409 for k in recs):
            continue
        enc = 10 if any(ord(c) > 0xFFFF for c in v) else 1
        n = t["name"].getName(nid, 3, enc, 0x409)
        if n is None or n.toUnicode() != v:
            raise Violation("variable-font name record differs from the overridden value / documented fallback", nameID=nid, got=n.toUnicode() if n else None, expected=v,
                            overridden=sorted(over))
    if not e["_psname_explicit"] and not any(k[0] == 6 for k in recs):
        n6 = t["name"].getName(6, 3, 1, 0x409)
        if n6 is None or not ps_ok(n6.toUnicode()):
            raise Violation("generated PostScript font name (name ID 6) of the variable font contains a space, control, delimiter or non-ASCII character", name=n6.toUnicode() if n6 else None)
    ctx.label("vf-info-override")
    ctx.label("vf-" + flavour)
    if case["explicit_vf"]:
        ctx.label("vf-explicit-descriptor")
    changed = [k for k in over if base.get(k) != over[k]]
    if any(k in base for k in changed):
        ctx.label("vf-override-replaces-explicit")
    if any(k not in base for k in changed):
        ctx.label("vf-override-adds-absent")
    ctx.nontrivial(bool(changed))


def run_case(case, ctx):
    if case["kind"] == "psname":
        return run_psname(case, ctx)
    if case["kind"] == "vfinfo":
        return run_vf(case, ctx)
    import ufo2ft
    from fontTools.ttLib import TTFont

    info, flavour = dict(case["info"]), case["flavour"]
    e = expected(info)
    in_range(e)
    spec = {"info": info, "glyphs": [{"name": "a", "width": 500, "unicodes": [0x61], "contours": [[[0, 0, "line"], [100, 0, "line"], [100, 100, "line"]]]}, {"name": ".notdef", "width": 500, "contours": []}]}
    font = S.build(spec, S.ufo_module(case["module"]))
    before = SN.font_snapshot(font)["info"]
    comp = ufo2ft.compileOTF if flavour == "otf" else ufo2ft.compileTTF
    opt = case.get("optimizeCFF", 2)
    kw = {"optimizeCFF": opt} if flavour == "otf" else {}
    with guard("compile with the generated font info"):
        t = comp(font, **kw)
        b = io.BytesIO()
        t.save(b)
        t = TTFont(io.BytesIO(b.getvalue()))
    if SN.font_snapshot(font)["info"] != before:
        raise Violation("compiling modified the source font info")
    check_tables(t, e, info, flavour, "first compile")
    check_extra(t, e, flavour, "first compile", subroutinized=opt == 2)
    if flavour == "otf" and opt == 0:
        ctx.label("otf-unsubroutinized")
    # names
    recs = {(r["nameID"], r["platformID"], r["encodingID"], r["languageID"]): r["string"] for r in info.get("openTypeNameRecords", [])}
    n6 = t["name"].getName(6, 3, 1, 0x409)
    ps = n6.toUnicode() if n6 is not None else None
    if not any(k[0] == 6 for k in recs):
        if e["_psname_explicit"]:
            if ps != e["_psname_explicit"]:
                raise Violation("explicit postscriptFontName does not appear in name ID 6", got=ps, expected=e["_psname_explicit"])
        else:
            if ps is None or not ps_ok(ps):
                raise Violation("generated PostScript font name (name ID 6) contains a space, control, delimiter or non-ASCII character", name=ps, family=info.get("familyName"), style=info.get("styleName"),
                                preferred=[info.get("openTypeNamePreferredFamilyName"), info.get("openTypeNamePreferredSubfamilyName")])
            it = iter(ps)
            if not all(c in it for c in e["_ps_core"]):
                raise Violation("generated PostScript font name (name ID 6) lost a legal character of the family / style names it derives from", name=ps, legal_characters_expected_in_order=e["_ps_core"])
    if flavour == "otf":
        cffname = t["CFF "].cff.fontNames[0]
        if not e["_psname_explicit"] and not ps_ok(cffname):
            raise Violation("generated CFF FontName contains a space, control, delimiter or non-ASCII character", name=cffname)
        td = t["CFF "].cff.topDictIndex[0]
        for attr in ("FullName", "FamilyName", "Weight", "Notice", "Copyright"):
            v = getattr(td, attr, None)
            if v is not None and not all(ord(c) < 128 for c in v):
                raise Violation("CFF top dict string is not reduced to ASCII", field=attr, value=v)
    if not e["_uid_explicit"] and not any(k[0] == 3 for k in recs):
        n3 = t["name"].getName(3, 3, 1, 0x409) or t["name"].getName(3, 3, 10, 0x409)
        prefix = "%s;%s;" % (e["_uid_parts"][0], e["_uid_parts"][1])
        got3 = n3.toUnicode() if n3 else None
        if got3 is None or not got3.startswith(prefix):
            raise Violation("unique ID fallback differs", got=got3, expected_prefix=prefix)
        rest = got3[len(prefix):]
        if e["_psname_explicit"]:
            if rest != e["_psname_explicit"]:
                raise Violation("unique ID fallback does not end with the explicit PostScript name", got=got3)
        elif not ps_ok(rest) or (not any(k[0] == 6 for k in recs) and rest != ps):
            raise Violation("unique ID fallback does not end with the generated PostScript name", got=got3, name6=ps)
    elif e["_uid_explicit"]:
        e["names"][3] = e["_uid_explicit"]
    for nid, v in e["names"].items():
        if any(k[0] == nid and k[1] == 3 and k[3] == 0x409 for k in recs):
            continue
        enc = 10 if any(ord(c) > 0xFFFF for c in v) else 1
        n = t["name"].getName(nid, 3, enc, 0x409)
        if n is None or n.toUnicode() != v:
            raise Violation("name record differs from the explicit value / documented fallback", nameID=nid, got=n.toUnicode() if n else None, expected=v)
    for (nid, pid, eid, lid), v in recs.items():
        n = t["name"].getName(nid, pid, eid, lid)
        if n is None or n.toUnicode() != v:
            raise Violation("explicit openTypeNameRecords entry missing or changed", nameID=nid, expected=v, got=n.toUnicode() if n else None)
    have = {n.nameID for n in t["name"].names}
    extra = have - set(e["names"]) - {k[0] for k in recs} - {3, 6}
    if extra:
        raise Violation("name table has records for attributes that are absent", extra=sorted(extra))
    # second compile of the same object after switching the style-map style: explicit selection bits must not leak
    if case.get("second_style"):
        font.info.styleMapStyleName = case["second_style"]
        info2 = dict(info, styleMapStyleName=case["second_style"])
        e2 = expected(info2)
        with guard("second compile"):
            t2 = comp(font)
            b2 = io.BytesIO()
            t2.save(b2)
            t2 = TTFont(io.BytesIO(b2.getvalue()))
        check_tables(t2, e2, info2, flavour, "second compile after switching styleMapStyleName")
        ctx.label("second-compile")
    npresent = len(info)
    strings = [v for v in info.values() if isinstance(v, str)]
    nonascii = any(any(ord(c) > 127 for c in s) for s in strings)
    ctx.label(flavour)
    if npresent >= 10:
        ctx.label(">=10-attributes")
    if nonascii:
        ctx.label("non-ascii-string")
    ctx.nontrivial(npresent >= 10 and nonascii)


MANIFEST = {
    "technique": "property-based testing (Hypothesis) against a local restatement of the font-info mapping and fallback formulas + exhaustive enumeration of Unicode for the PostScript-name fallback",
    "text": "Generated subsets of the ~95 fontinfo attributes with spec-valid values; the compiled, saved and reloaded tables are compared field by field with an independent "
    "restatement of explicit-value mapping and fallback formulas; the PostScript name character set is checked on every compile and, exhaustively, for every Unicode scalar "
    "value through the fallback function. Variable fonts with designspace public.fontInfo overrides are compared with the same restatement applied to the merged info. Counterexample search only (the enumerated slice is exhaustive).",
    "note": "Inputs whose fallback overflows a binary field are discarded and counted. head.flags bit 1 is masked for TrueType (recomputed by fontTools).",
}
