"""C05 - generated kerning applies the UFO kerning value to every pair, once."""
import io
import itertools

from hypothesis import strategies as st

from ufoverif import otl, refmodel as R, spec as S
from ufoverif.runner import Discard, Violation, guard

ID = "C05"
RULE = (
    "case = (repertoire of 3-12 glyphs mixing Latin/Cyrillic/Greek/Arabic/Hebrew/Devanagari/kana/digits/punctuation/marks/unencoded glyphs and "
    "GSUB alternates; UFO3-valid kerning groups (partition per side) never mixing folded-bidi L and R; kerning at all four precedence levels with "
    "deliberate exceptions, zero/negative/fractional values, missing glyphs/groups; optional openTypeCategories, languagesystem statements with "
    "extra languages, skipExportGlyphs; writer KernFeatureWriter | kernFeatureWriter2 | both; quantization 1/5/10; ignoreMarks on/off); oracle = "
    "own GPOS/GDEF interpreter over every ordered glyph pair under every script tag and declared language vs a local UFO kerning lookup: in-run, "
    "not bidi-mixed pairs must get exactly quantize(value) as x-advance from at most one lookup (and as x-placement in RTL scripts), other pairs 0 or "
    "the value; single-direction fonts: both writers agree. Non-trivial = the kerning has a group pair and an exception to it and the repertoire "
    "has >= 2 scripts or a mark. Distinct = case hash."
)
ASSUMPTIONS = [
    "fontTools' GPOS/GDEF decompiler reports the compiled tables; the pair interpreter follows the OpenType spec (first matching subtable ends a lookup; lookup flags honoured via compiled GDEF)",
    "Unicode script extensions / bidi classes from fontTools.unicodedata are the reference for 'script of a glyph'",
    "'opposite strong bidi directions' is read with the writer's documented folding (AN/EN count as L)",
    "kerning groups mixing folded-bidi L and R members and kerning on glyphs that are GDEF marks only by feaLib inference are candidate findings kept out of this generator (DESIGN.md C05)",
]
N = {"quick": (8, 250), "thorough": (16, 1500)}
FLOORS = {"writer-differential": 0.07, "rtl-script": 0.15, "dist-script": 0.08, "group-pair-with-exception": 0.125, "pair-names-missing-glyph": 0.1, "marks": 0.137}  # a third of the measured frequency: a starving generator is a harness error, sampling noise is not

POOL = [
    ("A", 0x41), ("B", 0x42), ("V", 0x56), ("a", 0x61), ("o", 0x6F), ("Ya-cy", 0x42F), ("be-cy", 0x431), ("Alpha", 0x391),
    ("alef-ar", 0x627), ("beh-ar", 0x628), ("lam-ar", 0x644), ("alef-hb", 0x5D0), ("bet-hb", 0x5D1),
    ("ka-deva", 0x915), ("ga-deva", 0x917), ("a-hira", 0x3042), ("a-kata", 0x30A2),
    ("one", 0x31), ("two", 0x32), ("one-ar", 0x661), ("period", 0x2E), ("comma", 0x2C), ("hyphen", 0x2D), ("space", 0x20),
    ("comma-ar", 0x60C), ("tatweel", 0x640), ("danda", 0x964), ("udatta", 0x951), ("percent-ar", 0x66A),
    ("acutecomb", 0x301), ("gravecomb", 0x300), ("fatha-ar", 0x64E), ("anusvara-deva", 0x902),
    ("u1", None), ("u2", None), ("a.alt", None), ("alef-ar.fina", None), ("V.alt", None), ("period.alt", None), ("lowlinecomb", 0x332),  # the last one: script extension exactly {Zinh}
    ("ayb-arm", 0x531), ("ben-arm", 0x532), ("thaa", 0x780), ("Beta", 0x392), ("alpha-gr", 0x3B1), ("ka-geor", 0x10D9),
]
POOLD = dict(POOL)
MARKS = {"acutecomb", "gravecomb", "fatha-ar", "anusvara-deva", "udatta", "lowlinecomb"}
ALTS = {"a.alt": "a", "alef-ar.fina": "alef-ar", "V.alt": "V", "period.alt": "period"}  # incl. an alternate reachable only from a script- and direction-neutral glyph
TAGS = ["latn", "cyrl", "arab", "hebr", "dev2", "deva", "grek", "kana", "armn", "thaa"]


def _ud():
    from fontTools import unicodedata as ud

    return ud


def folded_bidi_of_name(n):
    u = POOLD.get(n) or POOLD.get(ALTS.get(n, ""), None)
    if not u:
        return None
    bt = _ud().bidirectional(chr(u))
    return "R" if bt in ("R", "AL") else "L" if bt in ("L", "AN", "EN") else None


LTR_POOL = [p for p in POOL if p[0] in ("A", "B", "V", "a", "o", "Ya-cy", "be-cy", "Alpha", "ka-deva", "ga-deva", "a-hira", "a-kata", "one", "two", "period", "comma",
                                        "hyphen", "space", "danda", "acutecomb", "gravecomb", "anusvara-deva", "u1", "u2", "a.alt", "V.alt", "ayb-arm", "ben-arm", "Beta", "alpha-gr", "ka-geor", "lowlinecomb")]
MULTI_LTR_POOL = [p for p in POOL if p[0] in ("A", "V", "a", "Ya-cy", "be-cy", "Alpha", "Beta", "alpha-gr", "ayb-arm", "ben-arm", "ka-geor", "period", "u1")]
RTL_POOL = [p for p in POOL if p[0] in ("alef-ar", "beh-ar", "lam-ar", "alef-hb", "bet-hb", "period", "comma", "hyphen", "space", "comma-ar", "tatweel", "fatha-ar",
                                        "u1", "u2", "alef-ar.fina", "thaa", "percent-ar", "lowlinecomb")]


@st.composite
def kern_font(draw, pool=POOL):
    names = draw(st.lists(st.sampled_from(pool), min_size=3, max_size=12, unique=True))
    # an alternate is kept only together with its base: add the missing bases rather than dropping the alternates (three alternates alone would leave nothing)
    have = {n[0] for n in names}
    names = names + [(ALTS[n[0]], POOLD[ALTS[n[0]]]) for n in names if n[0] in ALTS and ALTS[n[0]] not in have and (ALTS[n[0]], POOLD[ALTS[n[0]]]) in pool]
    names = [n for n in names if n[0] not in ALTS or any(m[0] == ALTS[n[0]] for m in names)] or [("A", 0x41)]
    glyphs = []
    for n, u in names:
        w = 0 if (n in MARKS and draw(st.booleans())) else draw(st.sampled_from([500, 600, 250.5]))
        glyphs.append({"name": n, "width": w, "unicodes": [u] if u else [], "contours": [[[0, 0, "line"], [100, 0, "line"], [100, 100, "line"]]]})
    gnames = [g["name"] for g in glyphs]
    groups = {}
    for side in ("public.kern1.", "public.kern2."):
        members = draw(st.lists(st.sampled_from(gnames), unique=True, max_size=len(gnames)))
        k = draw(st.integers(1, 3))
        for i, m in enumerate(members):
            groups.setdefault(side + "g%d" % (i % k), []).append(m)
        if draw(st.integers(0, 5)) == 0:
            groups[side + "ghost"] = ["nonexistent"]
        if draw(st.integers(0, 7)) == 0:
            groups[side + "empty"] = []
    if draw(st.integers(0, 5)) == 0:
        groups["othergroup"] = gnames[:2]
    # generator rule (DESIGN.md C05 (ii)): a kerning group never mixes folded-bidi L and R members
    for gname, members in list(groups.items()):
        if {"L", "R"} <= {folded_bidi_of_name(m) for m in members} and draw(st.sampled_from([True, True, True, False])):
            groups[gname] = [m for m in members if folded_bidi_of_name(m) != "L"]
    val = st.one_of(st.integers(-100, 100), st.sampled_from([0, 0, -12.5, 7.5, 2.49, -0.5, 12.5, -13.5, 25, -75, 2.5]))
    k1 = [n for n in groups if n.startswith("public.kern1.")]
    k2 = [n for n in groups if n.startswith("public.kern2.")]
    left = st.sampled_from(gnames + k1 + ["missing"])
    right = st.sampled_from(gnames + k2 + ["missing"])
    kerning = draw(st.lists(st.tuples(left, right, val), max_size=8, unique_by=lambda t: (t[0], t[1])))
    kerning = [list(k) for k in kerning]
    k1n = [n for n in k1 if groups[n]]
    k2n = [n for n in k2 if groups[n]]

    def add(l, r, v):
        if not any(x[0] == l and x[1] == r for x in kerning):
            kerning.append([l, r, v])

    if k1n and k2n:
        for l, r, v in draw(st.lists(st.tuples(st.sampled_from(k1n), st.sampled_from(k2n), val), max_size=4)):
            add(l, r, v)
    for l, r, v in list(kerning):
        lm = [g for g in groups.get(l, []) if g in gnames] if l in k1 else []
        rm = [g for g in groups.get(r, []) if g in gnames] if r in k2 else []
        if lm and draw(st.booleans()):
            add(draw(st.sampled_from(lm)), r, draw(val))
        if rm and draw(st.booleans()):
            add(l, draw(st.sampled_from(rm)), draw(val))
        if lm and rm and draw(st.booleans()):
            add(draw(st.sampled_from(lm)), draw(st.sampled_from(rm)), draw(val))
    spec = {"info": {"unitsPerEm": 1000}, "glyphs": glyphs, "groups": groups, "kerning": kerning}
    lib = {}
    if draw(st.booleans()):
        lib["public.openTypeCategories"] = {n: ("mark" if n in MARKS else "base") for n in gnames if n in MARKS or draw(st.booleans())}
    spec["lib"] = lib
    fea = ""
    tags = draw(st.lists(st.sampled_from(TAGS), unique=True, max_size=3))
    if draw(st.booleans()):
        fea += "languagesystem DFLT dflt;\n"
        for t in tags:
            fea += "languagesystem %s dflt;\n" % t
            if draw(st.integers(0, 3)) == 0:
                fea += "languagesystem %s %s;\n" % (t, draw(st.sampled_from(["TRK ", "URD ", "MAR "])))
    alts = [n for n in gnames if n in ALTS]
    if alts:
        fea += "feature salt {\n" + "".join("  sub %s by %s;\n" % (ALTS[n], n) for n in alts) + "} salt;\n"
    spec["features"] = fea
    return spec


@st.composite
def _case(draw):
    writer = draw(st.sampled_from(["kern1", "kern1", "kern1", "both"]))
    spec = draw(kern_font(draw(st.sampled_from([POOL, POOL, POOL, MULTI_LTR_POOL])) if writer == "kern1" else draw(st.sampled_from([LTR_POOL, RTL_POOL]))))
    gnames = [g["name"] for g in spec["glyphs"]]
    case = {
        "spec": spec,
        "module": draw(st.sampled_from(["ufoLib2", "defcon"])),
        "writer": writer,
        "quant": draw(st.sampled_from([1, 1, 5, 10])),
        "ignoreMarks": draw(st.sampled_from([True, True, True, False])),
    }
    skippable = [n for n in gnames if n not in ALTS and n not in ALTS.values()]   # the salt feature names alternates and their bases
    if skippable and draw(st.sampled_from([True, False, False, False, False])):
        case["skip"] = draw(st.lists(st.sampled_from(skippable), min_size=1, max_size=2, unique=True))
    return case


def strategy(tier):
    return _case()


def sample_view(case):
    sp = case["spec"]
    return {
        "options": {k: case.get(k) for k in ("module", "writer", "quant", "ignoreMarks", "skip")},
        "glyphs": [[g["name"], g["unicodes"], g["width"]] for g in sp["glyphs"]],
        "groups": sp["groups"],
        "kerning": sp["kerning"],
        "categories": sp["lib"].get("public.openTypeCategories"),
        "features": sp["features"],
    }


def scripts_of(spec):
    """glyph -> set of Unicode scripts (closure through the generated single substitutions), and folded bidi set"""
    ud = _ud()
    sc, bd = {}, {}
    for g in spec["glyphs"]:
        s, b = set(), set()
        for u in g["unicodes"]:
            s |= {{"Hira": "Hrkt", "Kana": "Hrkt"}.get(x, x) for x in ud.script_extension(chr(u))}
            bt = ud.bidirectional(chr(u))
            if bt in ("R", "AL"):
                b.add("R")
            elif bt in ("L", "AN", "EN"):
                b.add("L")
        sc[g["name"]] = s
        bd[g["name"]] = b
    for alt, base in ALTS.items():
        if alt in sc and base in sc:
            sc[alt] |= sc[base]
            bd[alt] |= bd[base]
    return sc, bd


def ufo_kern(spec, g1, g2, exported):
    """UFO kerning lookup (glyph-glyph, glyph-group, group-glyph, group-group); groups restricted to exported glyphs"""
    k = {(l, r): v for l, r, v in spec["kerning"]}
    grp1 = grp2 = None
    for n, m in spec["groups"].items():
        if n.startswith("public.kern1.") and g1 in m:
            grp1 = n
        if n.startswith("public.kern2.") and g2 in m:
            grp2 = n
    for key in ((g1, g2), (g1, grp2), (grp1, g2), (grp1, grp2)):
        if None not in key and key in k:
            return k[key]
    return 0


def candidate_rules(spec, g1, g2):
    """the kerning entries that could apply to (g1, g2), most specific first: [(key, value)]"""
    k = {(l, r): v for l, r, v in spec["kerning"]}
    grp1 = grp2 = None
    for n, m in spec["groups"].items():
        if n.startswith("public.kern1.") and g1 in m:
            grp1 = n
        if n.startswith("public.kern2.") and g2 in m:
            grp2 = n
    return [(key, k[key]) for key in ((g1, g2), (g1, grp2), (grp1, g2), (grp1, grp2)) if None not in key and key in k]


def rule_bidi(spec, key, bd, exported):
    """folded bidi classes of all exported glyphs a kerning entry names (groups expanded)"""
    out = set()
    for side in key:
        for g in spec["groups"].get(side, [side]) if side.startswith("public.kern") else [side]:
            if g in exported:
                out |= bd.get(g, set())
    return out


def selftest_kern_reference():
    from fontTools.ufoLib.kerning import lookupKerningValue

    spec = {
        "kerning": [["public.kern1.a", "public.kern2.b", -10], ["A", "public.kern2.b", -20], ["public.kern1.a", "B", -30], ["A", "B", -40], ["V", "V", 5]],
        "groups": {"public.kern1.a": ["A", "V"], "public.kern2.b": ["B", "o"]},
    }
    k = {(l, r): v for l, r, v in spec["kerning"]}
    for g1, g2 in itertools.product(["A", "V", "B", "o", "x"], repeat=2):
        assert ufo_kern(spec, g1, g2, None) == lookupKerningValue((g1, g2), k, spec["groups"], fallback=0), (g1, g2)


_selftested = []


def compile_font(case, writer_name):
    import ufo2ft
    from fontTools.ttLib import TTFont
    from ufo2ft.featureWriters import GdefFeatureWriter, KernFeatureWriter
    from ufo2ft.featureWriters.kernFeatureWriter2 import KernFeatureWriter as KernFeatureWriter2

    spec = case["spec"]
    W = KernFeatureWriter if writer_name == "kern1" else KernFeatureWriter2
    ws = [W(quantization=case["quant"], ignoreMarks=case.get("ignoreMarks", True))]
    if "public.openTypeCategories" in spec["lib"]:
        ws.append(GdefFeatureWriter)
    kw = {}
    if case.get("skip"):
        kw["skipExportGlyphs"] = list(case["skip"])
    if case.get("default_writers"):
        ws = None  # the default writer list (kern, mark, gdef, curs): used by the replay of KF-C05-2
    with guard("compileTTF with %s" % W.__module__):
        ttf = ufo2ft.compileTTF(S.build(spec, S.ufo_module(case["module"])), useProductionNames=False, featureWriters=ws, **kw)
        b = io.BytesIO()
        ttf.save(b)
    return TTFont(io.BytesIO(b.getvalue()))


def script_of_tag(tag):
    ud = _ud()
    s = ud.ot_tag_to_script(tag)
    return {"Hira": "Hrkt", "Kana": "Hrkt"}.get(s, s)


def is_rtl_script(S_):
    return _ud().script_horizontal_direction("Hira" if S_ == "Hrkt" else S_, "LTR") == "RTL"


def check_writer(case, writer_name, ctx):
    spec, quant = case["spec"], case["quant"]
    t = compile_font(case, writer_name)
    sc, bd = scripts_of(spec)
    skip = set(case.get("skip") or [])
    names = [g["name"] for g in spec["glyphs"] if g["name"] not in skip]
    for n in skip:
        if n in t.getGlyphOrder():
            raise Violation("skipped glyph present in font", glyph=n)
    tags = set(otl.script_tags(t)) | {"DFLT"}
    langs = otl.languages_by_script(t)

    def neutral(g):
        return (not sc[g]) or bool(sc[g] & {"Zyyy", "Zinh"})

    strict = weak = rtlc = kfc = 0
    exported = set(names)
    no_excl = bool(case.get("no_exclusions"))
    for tag in sorted(tags):
        S_ = None if tag == "DFLT" else script_of_tag(tag)
        rtl = S_ is not None and is_rtl_script(S_)
        for lang in ["dflt"] + sorted(langs.get(tag, [])):
            for g1, g2 in itertools.product(names, names):
                raw = ufo_kern(spec, g1, g2, None)
                v = quant * R.ot_round(raw / quant)
                (xp, yp, xa, ya), n, second = otl.eval_pair(t, g1, g2, tag, lang=lang)
                if yp or ya or second:
                    raise Violation("unexpected y or second-glyph adjustment", tag=tag, pair=[g1, g2], value=[xp, yp, xa, ya])
                inrun = S_ is not None and all((S_ in sc[g]) or neutral(g) for g in (g1, g2))
                mixed = (bd[g1] | bd[g2]) >= {"L", "R"}
                # known finding KF-C05-1: direction decisions are taken per class pair.  A pair is in its input class when one
                # of the kerning entries that could apply to it names (after expanding groups) both bidi-L and bidi-R glyphs
                # (the writer drops such an entry whole), or - for the placement clause - when the deciding entry names a bidi-L glyph.
                cands = candidate_rules(spec, g1, g2)
                rb = [rule_bidi(spec, key, bd, exported) for key, _ in cands]
                kf_drop = (not no_excl) and any(b >= {"L", "R"} for b in rb)
                kf_place = (not no_excl) and any("L" in b for b in rb)
                if inrun and not mixed and not kf_drop:
                    strict += 1
                    if xa != v or n > 1:
                        raise Violation(
                            "kerning applied to an in-run pair differs from the UFO value",
                            writer=writer_name, tag=tag, lang=lang, pair=[g1, g2], ufo_value=raw, expected=v, x_advance=xa, lookups_applied=n,
                        )
                    strong = any(S_ in sc[g] and not neutral(g) for g in (g1, g2))
                    if rtl and strong and not (bd[g1] | bd[g2]) & {"L"} and not kf_place:
                        rtlc += 1
                        if xp != v:
                            raise Violation("RTL pair lacks the x-placement", writer=writer_name, tag=tag, pair=[g1, g2], expected=v, x_placement=xp, x_advance=xa)
                else:
                    weak += 1
                    allowed = {0, v}
                    if kf_drop:
                        kfc += 1
                        allowed |= {quant * R.ot_round(val / quant) for _, val in cands}
                    if xa not in allowed or xp not in allowed or n > 1:
                        raise Violation(
                            "pair outside the strict class received neither zero nor the UFO value",
                            writer=writer_name, tag=tag, lang=lang, pair=[g1, g2], ufo_value=raw, expected=v, x_advance=xa, x_placement=xp, lookups_applied=n,
                        )
    ctx.count("strict-pair-evaluations", strict)
    ctx.count("weak-pair-evaluations", weak)
    ctx.count("rtl-placement-evaluations", rtlc)
    ctx.count("pairs-in-known-finding-class(KF-C05-1)", kfc)
    return t


def single_direction(spec):
    ud = _ud()
    sc, bd = scripts_of(spec)
    dirs = set()
    for g, s in sc.items():
        for x in s:
            if x not in ("Zyyy", "Zinh"):
                dirs.add(ud.script_horizontal_direction(x if x != "Hrkt" else "Hira", "LTR"))
    allb = set().union(*bd.values()) if bd else set()
    return len(dirs) <= 1 and not ({"L", "R"} <= allb) and not (dirs == {"RTL"} and "L" in allb) and not (dirs == {"LTR"} and "R" in allb)


def run_case(case, ctx):
    if not _selftested:
        selftest_kern_reference()
        _selftested.append(1)
    spec = case["spec"]
    sc, bd = scripts_of(spec)
    if case["writer"] == "both":
        if not single_direction(spec):
            # differential clause is stated for single-direction fonts; run the primary writer instead
            check_writer(case, "kern1", ctx)
        else:
            ctx.label("writer-differential")
            a = check_writer(case, "kern1", ctx)
            b = compile_font(case, "kern2")
            skip = set(case.get("skip") or [])
            names = [g["name"] for g in spec["glyphs"] if g["name"] not in skip]
            tags = (set(otl.script_tags(a)) & set(otl.script_tags(b))) | {"DFLT"}

            def neutral(g):
                return (not sc[g]) or bool(sc[g] & {"Zyyy", "Zinh"})

            npairs = 0
            for tag in sorted(tags):
                S_ = None if tag == "DFLT" else script_of_tag(tag)
                for g1, g2 in itertools.product(names, names):
                    inrun = (S_ is None and all(neutral(g) for g in (g1, g2))) or (S_ is not None and all((S_ in sc[g]) or neutral(g) for g in (g1, g2)))
                    if not inrun:
                        continue
                    ra = otl.eval_pair(a, g1, g2, tag)[0]
                    rb = otl.eval_pair(b, g1, g2, tag)[0]
                    npairs += 1
                    if ra[2] != rb[2]:
                        raise Violation("the two kern writers disagree on a single-direction font", tag=tag, pair=[g1, g2], kernFeatureWriter=ra, kernFeatureWriter2=rb)
                    # placement agreement only where the legacy writer's own direction rule (primary Unicode script of a glyph,
                    # not its script extensions) also puts the pair into the right-to-left lookup, and no entry that could apply names a bidi-L glyph
                    prim = lambda g: {_ud().script(chr(u)) for gg in spec["glyphs"] if gg["name"] in (g, ALTS.get(g)) for u in gg["unicodes"]}
                    exported = set(names)
                    if (
                        S_ is not None
                        and is_rtl_script(S_)
                        and any(S_ in prim(g) for g in (g1, g2))
                        and not any("L" in rule_bidi(spec, key, bd, exported) for key, _ in candidate_rules(spec, g1, g2))
                        and ra[0] != rb[0]
                    ):
                        raise Violation("the two kern writers disagree on x-placement in an RTL script", tag=tag, pair=[g1, g2], kernFeatureWriter=ra, kernFeatureWriter2=rb)
            ctx.count("writer-agreement-pairs", npairs)
    else:
        check_writer(case, case["writer"], ctx)
    # classification
    allsc = set().union(*sc.values()) - {"Zyyy", "Zinh"} if sc else set()
    if any(is_rtl_script(s) for s in allsc):
        ctx.label("rtl-script")
    from ufo2ft.featureWriters.kernFeatureWriter import DIST_ENABLED_SCRIPTS

    if allsc & set(DIST_ENABLED_SCRIPTS):
        ctx.label("dist-script")
    names = {g["name"] for g in spec["glyphs"]}
    if any(l not in names and not l.startswith("public.") or r not in names and not r.startswith("public.") for l, r, v in spec["kerning"]):
        ctx.label("pair-names-missing-glyph")
    gp = [(l, r) for l, r, v in spec["kerning"] if l.startswith("public.kern1.") and r.startswith("public.kern2.")]
    exc = False
    for l, r in gp:
        for l2, r2, v in spec["kerning"]:
            if (l2, r2) != (l, r) and (l2 == l or l2 in spec["groups"].get(l, [])) and (r2 == r or r2 in spec["groups"].get(r, [])):
                exc = True
    if exc:
        ctx.label("group-pair-with-exception")
    has_mark = any(n in MARKS for n in names)
    if has_mark:
        ctx.label("marks")
    if "public.openTypeCategories" in spec["lib"]:
        ctx.label("categories")
    if case.get("skip"):
        ctx.label("skip-list")
    ctx.label("writer=" + case["writer"])
    ltr_scripts = {x for x in allsc if not is_rtl_script(x)}
    if len(ltr_scripts) >= 3:
        ctx.label(">=3-LTR-scripts")
    ctx.label("quant=%s" % case["quant"])
    if "languagesystem" in spec["features"]:
        ctx.label("languagesystems")
    ctx.nontrivial(exc and (len(allsc) >= 2 or has_mark))


MANIFEST = {
    "technique": "property-based testing (Hypothesis): own GPOS/GDEF interpreter vs local UFO kerning reference; differential between the two shipped kern writers",
    "text": "Generated search over repertoires, groups, kerning dictionaries, feature text and writer options; the compiled GPOS is interpreted for every ordered "
    "glyph pair under every script/language system and compared with UFO kerning semantics computed independently. Counterexample search only; fonts "
    "stay small (<= 12 glyphs), so subtable-overflow splitting is out of range.",
    "note": "Trusts fontTools' GPOS/GDEF readers and Unicode data. Two input classes (bidi-mixed kerning groups; kerning on glyphs that are marks only by feaLib inference) are "
    "excluded by construction, see DESIGN.md.",
}
