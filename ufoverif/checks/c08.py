"""C08 - output is a pure function of UFO content and options."""
import atexit
import hashlib
import io
import json
import os
import re
import shutil
import subprocess
import sys
import tempfile

from hypothesis import strategies as st

from ufoverif import family as F, spec as S
from ufoverif.checks import c05, c06, c07
from ufoverif.runner import VERIF, Discard, Violation

ID = "C08"
RULE = (
    "case = (source: rich UFO | mark-class-heavy UFO | kerning-heavy multi-script UFO | 2-4 master designspace | 2-master designspace with sparse class kerning and GPOS compaction; all with a full explicit glyph order) "
    "x history of 1-3 compile calls with generated options (incl. lib/explicit feature writers with groupMarkClasses, contextual anchors); oracle = sha256 of "
    "the saved bytes of every returned font must be equal across (1) three worker processes with PYTHONHASHSEED 1/12345/987654 and the in-process seed 0, "
    "(2) ufoLib2 vs defcon built in memory and saved-with-one/reopened-with-the-other, (3) inplace=True on a private copy vs inplace=False, (4) every "
    "call of a history on the same source objects (equal options passed as the very same objects, incl. one filter instance serving several calls) vs the same call on freshly built sources, "
    "(5) every list/dict/set bound at module or class level anywhere in ufo2ft has the same value before and after the case. Non-trivial = >= 2 mark classes or >= 2 kerning groups "
    "per side, and a history of >= 2 calls. Distinct = case hash."
)
ASSUMPTIONS = [
    "SOURCE_DATE_EPOCH pins head.created/modified; compile calls that raise are compared by exception type",
    "cross-library comparison uses a full explicit public.glyphOrder (defcon materialises insertion order otherwise - a library difference, not ufo2ft's)",
    "ufo2ft has no threads: the 'schedules' part of the quantifier is covered as process hash-seed and call-order variation only",
    "inputs of the C07 known findings (MATH MinConnectorOverlap) are excluded: a mutated source trivially changes the second compile",
]
N = {"quick": (8, 60), "thorough": (16, 400)}
FLOORS = {"family": 0.1, "history>=2": 0.162, "hash-seeds-compared": 0.9}  # a third of the measured frequency: a starving generator is a harness error, sampling noise is not

HASH_SEEDS = (1, 12345, 987654)


class Rejected(Exception):
    pass


def digest(t):
    b = io.BytesIO()
    t.save(b)
    return hashlib.sha256(b.getvalue()).hexdigest()


def outputs(fn, res):
    if fn.endswith("FromDS"):
        return [s.font for s in res.sources]
    if fn in ("compileVariableTTFs", "compileVariableCFF2s"):
        return [res[k] for k in sorted(res)]
    if fn == "compileInterpolatableTTFs":
        return list(res)
    return [res]


def build_source(source, module_name, mode="mem"):
    module = S.ufo_module(module_name)
    tmp = None
    if source["kind"] == "font":
        f = S.build(source["spec"], module)
        fonts, ds = [f], None
    else:
        ds, fonts = F.build_designspace(source["fam"], module)
    if mode.startswith("disk:"):
        reader = S.ufo_module(mode.split(":", 1)[1])
        tmp = tempfile.mkdtemp(prefix="c08-", dir=os.environ.get("TMPDIR") or "/var/tmp")
        new = []
        for i, f in enumerate(fonts):
            path = os.path.join(tmp, "m%d.ufo" % i)
            f.save(path)
            new.append(reader.Font(path) if reader.__name__ == "defcon" else reader.Font.open(path))
        if ds is not None:
            for s in ds.sources:
                s.font = new[fonts.index(s.font)]
        fonts = new
        for f in fonts:  # load everything before the directory disappears
            for layer in f.layers:
                for g in layer:
                    g.width
            f.lib, f.kerning, f.groups, f.features.text, f.info.familyName
        shutil.rmtree(tmp, ignore_errors=True)
    return fonts, ds


def call(fonts, ds, op, inplace=False, kw=None):
    import ufo2ft

    fn = op["fn"]
    if kw is None:
        kw = c07.make_options(op["opts"])
    if inplace:
        kw["inplace"] = True
    if ds is not None and fn in ("compileTTF", "compileOTF"):
        # a static compile of the default master of a family (the "static then variable" histories)
        d = ds.findDefault()
        arg = d.font if d is not None else fonts[0]
    else:
        arg = ds if ds is not None else (fonts if "Interpolatable" in fn else fonts[0])
    res = getattr(ufo2ft, fn)(arg, **kw)
    return [digest(t) for t in outputs(fn, res)]


def compile_fresh(source, module_name, op, mode="mem"):
    fonts, ds = build_source(source, module_name, "mem" if mode == "inplace" else mode)
    try:
        return call(fonts, ds, op, inplace=(mode == "inplace"))
    except Exception as e:
        raise Rejected("%s" % type(e).__name__)


# ------------------------------------------------------------------ workers with other hash seeds
_workers = []


class Worker:
    def __init__(self, hs):
        env = dict(os.environ, PYTHONHASHSEED=str(hs))
        self.hs = hs
        self.p = subprocess.Popen([sys.executable, os.path.join(VERIF, "ufoverif", "worker.py")], stdin=subprocess.PIPE, stdout=subprocess.PIPE, stderr=subprocess.DEVNULL, env=env, text=True, cwd=VERIF)

    def send(self, req):
        self.p.stdin.write(json.dumps(req) + "\n")
        self.p.stdin.flush()

    def recv(self):
        line = self.p.stdout.readline()
        if not line:
            raise RuntimeError("worker with PYTHONHASHSEED=%s died" % self.hs)
        return json.loads(line)


def workers():
    if not _workers:
        for hs in HASH_SEEDS:
            _workers.append(Worker(hs))
        atexit.register(_close)
    return _workers


def _close():
    for w in _workers:
        try:
            w.p.stdin.close()
            w.p.wait(timeout=5)
        except Exception:
            w.p.kill()


# ------------------------------------------------------------------ generation
def _full_order(spec):
    spec = dict(spec)
    spec.pop("roles", None)
    names = [g["name"] for g in spec["glyphs"]]
    spec["glyphOrder"] = sorted(names)
    return spec


@st.composite
def _contextual(draw, spec):
    """give one base a contextual anchor '*top' with GPOS_Context lib data"""
    for g in spec["glyphs"]:
        if any(a["name"] == "top" for a in g.get("anchors", [])) and not g["name"].startswith("comp"):
            ident = "anchor-ctx-1"
            g["anchors"].append({"name": "*top", "x": draw(st.integers(0, 500)), "y": draw(st.integers(500, 900)), "identifier": ident})
            g.setdefault("lib", {})["public.objectLibs"] = {ident: {"GPOS_Context": "%s *" % g["name"]}}
            if not any(a["name"] == "_top" for h in spec["glyphs"] for a in h.get("anchors", [])):
                spec["glyphs"].append({"name": "gravecomb", "width": 0, "unicodes": [0x300], "contours": [[[0, 0, "line"], [9, 0, "line"], [9, 9, "line"]]], "anchors": [{"name": "_top", "x": 4, "y": 1}]})
            spec["_contextual"] = True
            break
    return spec


@st.composite
def _case(draw):
    kind = draw(st.sampled_from(["rich", "rich", "mark", "markchain", "kern", "family", "family", "compact"]))
    module = draw(st.sampled_from(["ufoLib2", "defcon"]))
    compact = kind == "compact"
    if compact:
        kind = "family"
    if kind == "family":
        fam = draw(F.family(base_strategy=F.sparse_kern_font(), max_masters=2, allow_sparse=False, allow_two_axes=False) if compact else F.family(base_strategy=F.rich_font(with_layers=False), max_masters=3))
        fam["base"] = _full_order(fam["base"])
        source = {"kind": "family", "fam": fam}
        names = [g["name"] for g in fam["base"]["glyphs"] if g["name"] != ".notdef"]
        funcs = c07.DS_FUNCS + ["compileTTF", "compileOTF"]
        src = fam["base"]
        if F.chance(draw, 1, 3):
            fam.setdefault("lib", {})["public.fontInfo"] = draw(c07.VF_INFO)
    else:
        if kind == "rich":
            spec = draw(F.rich_font())
            if F.chance(draw, 1, 2):
                spec = draw(_contextual(spec))
            if F.chance(draw, 1, 3):
                spec["lib"]["com.github.googlei18n.ufo2ft.featureWriters"] = draw(
                    st.sampled_from(
                        [
                            [{"class": "MarkFeatureWriter", "options": {"features": ["mark"]}}, {"class": "KernFeatureWriter"}],
                            [{"class": "KernFeatureWriter", "options": {"mode": "append"}}, {"class": "MarkFeatureWriter", "options": {"mode": "append", "features": ["mkmk", "mark"]}}],
                        ]
                    )
                )
                if "features" in spec and "feature kern" not in spec["features"] and spec.get("kerning"):
                    names0 = [g["name"] for g in spec["glyphs"] if g["name"] != ".notdef"]
                    spec["features"] += "feature kern {\n  pos %s %s -7;\n} kern;\n" % (names0[0], names0[1])
        elif kind == "markchain":
            n = draw(st.integers(4, 7))
            glyphs = [{"name": "base", "width": 500, "unicodes": [0x41], "contours": [[[0, 0, "line"], [100, 0, "line"], [100, 100, "line"]]],
                       "anchors": [{"name": "k%d" % i, "x": 10 * i, "y": 500 + i} for i in range(n + 1)]}]
            for i in range(n):
                glyphs.append({"name": "mark%d" % i, "width": 0, "unicodes": [0x300 + i], "contours": [[[0, 0, "line"], [10, 0, "line"], [10, 10, "line"]]],
                               "anchors": [{"name": "_k%d" % i, "x": i, "y": 2}, {"name": "_k%d" % (i + 1), "x": 3, "y": i}]})
            glyphs = list(draw(st.permutations(glyphs)))
            spec = {"info": {"unitsPerEm": 1000}, "glyphs": glyphs, "lib": {"com.github.googlei18n.ufo2ft.featureWriters": [
                {"class": "MarkFeatureWriter", "options": {"groupMarkClasses": True}}]}, "features": ""}
        elif kind == "mark":
            spec = draw(c06.mark_font())
            spec["lib"]["com.github.googlei18n.ufo2ft.featureWriters"] = [
                {"class": "MarkFeatureWriter", "options": {"groupMarkClasses": draw(st.booleans())}},
                {"class": "GdefFeatureWriter"},
            ]
        else:
            spec = draw(c05.kern_font())
        if kind == "rich" and F.chance(draw, 1, 6) and not any(g["name"] in ("pmA", "pmB") for g in spec["glyphs"]):
            # a ligature mark built only from mark components; which component is "closest to the origin" (and so promoted to base by PropagateAnchors)
            # depends on exact outline bounds - one mark has a cubic whose control points reach far beyond its outline
            spec["glyphs"] += [
                {"name": "pmA", "width": 0, "unicodes": [], "anchors": [{"name": "_top", "x": 20, "y": 10}, {"name": "top", "x": 20, "y": 90}],
                 "contours": [[[10, 10, "curve"], [60, 10, "line"], [60, 60, "line"], [10, 60, "line"], [-80, 60, None], [-80, 10, None]]]},  # outline reaches x=-57.5, its control points x=-80
                {"name": "pmB", "width": 0, "unicodes": [], "anchors": [{"name": "_top", "x": 60, "y": 50}, {"name": "top", "x": 60, "y": 130}],
                 "contours": [[[50, 50, "line"], [90, 50, "line"], [70, 100, "line"]]]},
                {"name": "pmA_pmB", "width": 0, "unicodes": [], "components": [{"base": "pmA", "t": [1, 0, 0, 1, 0, 0]}, {"base": "pmB", "t": [1, 0, 0, 1, 0, 0]}]},
            ]
            spec.setdefault("lib", {})["com.github.googlei18n.ufo2ft.filters"] = [{"name": "propagateAnchors", "pre": draw(st.booleans())}]
            spec["_ligmark"] = True
        if F.chance(draw, 1, 4):
            # vertical metrics with only two distinct vertical origins: ties in "the most frequent origin" (VORG default) are likely
            spec.setdefault("info", {}).update({"openTypeVheaVertTypoAscender": 500, "openTypeVheaVertTypoDescender": -500, "openTypeVheaVertTypoLineGap": 0})
            vo = draw(st.sampled_from([[880, 750], [880, 800], [800, 750]]))
            for k, g in enumerate(spec["glyphs"]):
                g["height"] = 1000
                g["verticalOrigin"] = vo[k % 2]
            spec["_vertical"] = True
        spec = _full_order(spec)
        source = {"kind": "font", "spec": spec}
        names = [g["name"] for g in spec["glyphs"] if g["name"] != ".notdef"]
        funcs = ["compileTTF", "compileOTF", "compileTTF", "compileOTF", "compileInterpolatableTTFs"]
        src = spec
    ops = []
    plan = [draw(st.sampled_from(funcs)) for _ in range(draw(st.integers(1, 3)))]
    if kind == "family" and F.chance(draw, 1, 2):
        # "static then variable" and the reverse, on the same source objects
        plan = list(draw(st.permutations([draw(st.sampled_from(["compileVariableTTF", "compileVariableCFF2"])), draw(st.sampled_from(["compileTTF", "compileOTF"]))])))
        if F.chance(draw, 1, 3):
            plan.append(draw(st.sampled_from(plan)))
    if compact:
        compact_key = draw(st.sampled_from(["@option", "@option", ""]))
        plan = [draw(st.sampled_from(["compileVariableTTF", "compileVariableCFF2"]))] * 2 + draw(st.sampled_from([[], ["compileTTF"]]))
    for fn in plan:
        o = draw(c07._opts(fn, names, bool(src.get("layers")), src))
        o.pop("debugFeatureFile", None)
        if any("CubicToQuadraticFilter" in f_ for f_ in o.get("filters", [])):
            # a second, caller-supplied curve conversion with rememberCurveType (C07's generator) is skipped in place - where the default conversion has left its
            # marker - and runs otherwise: the inplace comparison then differs by the caller's own doing (DESIGN 10.14); not part of this check's domain
            o.pop("filters")
        if kind in ("mark", "kern", "markchain"):
            o.pop("featureWriters", None)
        if F.chance(draw, 1, 4):
            o["ftConfig"] = {"fontTools.otlLib.optimize.gpos:COMPRESSION_LEVEL" + draw(st.sampled_from(["", "@option"])): draw(st.sampled_from([0, 5, 9]))}
        if compact:
            # one options dict kept around by the caller and used for every build (GPOS compaction on)
            o = {"ftConfig": {"fontTools.otlLib.optimize.gpos:COMPRESSION_LEVEL" + compact_key: 9}}
        ops.append({"fn": fn, "opts": o})
    if len(ops) >= 2 and F.chance(draw, 1, 3):
        if kind in ("rich", "family") and not compact and F.chance(draw, 2, 3):
            # ... with filter objects among the options (the same instances serve both calls)
            chosen = draw(st.sampled_from([["PropagateAnchorsFilter:pre", "..."], ["PropagateAnchorsFilter:pre", "..."], ["PropagateAnchorsFilter", "..."], ["TransformationsFilter:OffsetX=7", "..."], ["DecomposeTransformedComponentsFilter", "..."]]))
            ops[0]["opts"]["filters"] = chosen
            if kind == "rich" and chosen[0].startswith("PropagateAnchors"):
                # make the filter's work visible in GPOS: an anchor-less composite of a base that carries an anchor of an existing mark class
                classes = {a["name"][1:] for g in src["glyphs"] for a in g.get("anchors", []) if a["name"].startswith("_")}
                hosts = [g["name"] for g in src["glyphs"] if not g.get("components") and not any(a["name"].startswith("_") for a in g.get("anchors", []))
                         and any(a["name"] in classes for a in g.get("anchors", []))]
                if hosts and not any(g["name"] == "cpa" for g in src["glyphs"]):
                    src["glyphs"].append({"name": "cpa", "width": 500, "unicodes": [0xE9], "components": [{"base": hosts[0], "t": [1, 0, 0, 1, 30, 0]}], "anchors": []})
                    src["glyphOrder"] = sorted(src["glyphOrder"] + ["cpa"])
                    for o in ops:
                        if o["fn"] == "compileInterpolatableTTFs":  # the interpolatable filters are created per call; the static path takes the caller's objects
                            o["fn"] = "compileTTF"
                    src.get("lib", {}).pop("com.github.googlei18n.ufo2ft.filters", None)
                    src.get("lib", {}).pop("public.openTypeCategories", None)  # categories from the anchors
                    for key in [k for k in src.get("lib", {}) if k == "com.github.googlei18n.ufo2ft.colorPalettes" or k.startswith("com.nagwa.MATHPlugin.")]:
                        src["lib"].pop(key)  # keep this class clear of the C07 open-finding classes, which are discarded below
            if F.chance(draw, 1, 2):
                # every call of the history gets the one filter list and nothing else (TTF then OTF, static then variable, ...)
                for o in ops:
                    o["opts"] = {"filters": chosen}
        # "compile twice": the very same call (and, in the history run, the very same option objects) repeated
        ops[draw(st.integers(1, len(ops) - 1))] = json.loads(json.dumps(ops[0]))
    config = draw(st.sampled_from(["other-lib", "disk-same", "disk-other-writer", "disk-other-reader", "inplace", "inplace", "inplace-twice"]))
    ligmark = src.pop("_ligmark", False)
    vertical = src.pop("_vertical", False)
    if vertical and "compileOTF" not in [o["fn"] for o in ops]:
        ops[0] = {"fn": "compileOTF", "opts": {}}
    if ligmark:
        config = "other-lib"
        ops[0]["opts"].pop("filters", None)
        ops[0]["opts"].pop("skipExportGlyphs", None)
    if src.pop("_contextual", False):
        config = draw(st.sampled_from(["inplace", "inplace", "disk-same", "other-lib"]))
        ops[0]["opts"].pop("featureWriters", None)
    return {"source": source, "module": module, "ops": ops, "config": config}


def strategy(tier):
    return _case()


def sample_view(case):
    src = case["source"].get("spec") or case["source"]["fam"]["base"]
    return {"kind": case["source"]["kind"], "module": case["module"], "ops": case["ops"], "glyphs": [g["name"] for g in src["glyphs"]], "lib_keys": sorted(src.get("lib", {}))}


def kf2_class(src, op):
    """input class of the fixed finding KF-C08-2: variable features + a filter that moves or adds anchors (counted, not excluded)"""
    if not op["fn"].startswith("compileVariable") or op["opts"].get("variableFeatures") is False:
        return False
    names = [f.get("name", "") for f in src.get("lib", {}).get("com.github.googlei18n.ufo2ft.filters", [])] + list(op["opts"].get("filters", []))
    return any(n.lower().startswith(("transformations", "propagateanchors")) for n in names)


def module_state():
    """canonical value of every list, dict and set bound at module level or as a class attribute anywhere in ufo2ft (default writer and filter lists, registries):
    compile calls have no business changing them - a change is state that leaks into every later compile of the process"""
    out = {}

    def canon(v):
        txt = lambda x: re.sub(r" at 0x[0-9a-fA-F]+", "", repr(x))[:200]
        if isinstance(v, dict):
            return ("dict", tuple(sorted((txt(k), txt(x)) for k, x in list(v.items()))))
        if isinstance(v, (set, frozenset)):
            return ("set", tuple(sorted(txt(x) for x in list(v))))
        return ("list", tuple(txt(x) for x in list(v)))

    for name, mod in sorted(sys.modules.items()):
        if mod is None or not (name == "ufo2ft" or name.startswith("ufo2ft.")):
            continue
        for attr, val in list(vars(mod).items()):
            if attr.startswith("__"):
                continue
            if isinstance(val, (list, dict, set)):
                out["%s.%s" % (name, attr)] = canon(val)
            elif isinstance(val, type) and getattr(val, "__module__", None) == name:
                for a2, v2 in list(vars(val).items()):
                    if not a2.startswith("__") and isinstance(v2, (list, dict, set)):
                        out["%s.%s.%s" % (name, val.__name__, a2)] = canon(v2)
    return out


def run_case(case, ctx):
    state0 = module_state()
    _run_case(case, ctx)
    state1 = module_state()
    changed = sorted(k for k in set(state0) | set(state1) if state0.get(k) != state1.get(k) and k in state0)
    if changed:
        raise Violation("compile calls changed module-level state of ufo2ft (it leaks into every later compile of the process)", changed=changed,
                        before={k: state0[k] for k in changed[:3]}, after={k: state1.get(k) for k in changed[:3]})
    ctx.count("module-level-containers-watched", len(state0))


def _run_case(case, ctx):
    source, module = case["source"], case["module"]
    src = source.get("spec") or source["fam"]["base"]
    if c07.arms_known_finding(src) or c07.snapshot_mask(src):
        raise Discard("input class of a C07 known finding (the source is modified, so later calls differ)")
    other = "defcon" if module == "ufoLib2" else "ufoLib2"
    # reference digests: fresh sources, this process (hash seed 0), in memory
    ref = []
    for op in case["ops"]:
        try:
            ref.append(compile_fresh(source, module, op))
        except Rejected as e:
            ref.append("exc:" + str(e))
    # (1) other hash seeds
    ws = workers()
    for i, op in enumerate(case["ops"]):
        for w in ws:
            w.send({"source": source, "module": module, "op": op})
        answers = [(w, w.recv()) for w in ws]  # read every answer before judging: a worker left with an unread answer would desynchronise the following cases
        for w, r in answers:
            got = r.get("digests") if "digests" in r else "exc:" + r["exc"].split(":")[0]
            if got != ref[i]:
                raise Violation("output depends on the string hash seed", op=op, hash_seed=w.hs, reference=ref[i], got=got)
        ctx.count("hash-seed-comparisons", len(ws))
    ctx.label("hash-seeds-compared")
    # (2) other library, disk round trips; (3) inplace
    op0 = case["ops"][0]
    if case.get("config") == "inplace-twice" and op0["fn"] in ("compileTTF", "compileOTF") and not op0["opts"] and not src.get("lib", {}).get("com.github.googlei18n.ufo2ft.filters") and not src.get("lib", {}).get("public.skipExportGlyphs"):
        # harness-defined extension (only for the plain default call, where the pre-processing is idempotent by design: curve types are remembered)
        # the same in-place call twice on one private copy: both results equal the reference
        fonts_, ds_ = build_source(source, module)
        for k in (1, 2):
            try:
                got = call(fonts_, ds_, op0, inplace=True)
            except Exception as e:
                got = "exc:" + type(e).__name__
            if got != ref[0]:
                raise Violation("output of a repeated in-place compile differs from the first compile", op=op0, repetition=k, reference=ref[0], got=got)
        ctx.count("configuration-comparisons")
    configs = {"other-lib": ("mem", other), "disk-same": ("disk:" + module, module), "disk-other-writer": ("disk:" + other, module),
               "disk-other-reader": ("disk:" + module, other), "inplace": ("inplace", module)}
    chosen = [configs[case["config"]]] if case.get("config") in configs else ([] if case.get("config") else list(configs.values()))
    for mode, mod in chosen:
        if mode == "inplace" and kf2_class(src, op0):
            ctx.label("fixed-finding-class(KF-C08-2)")  # no longer excluded: the finding is repaired
        try:
            got = compile_fresh(source, mod, op0, mode)
        except Rejected as e:
            got = "exc:" + str(e)
        if got != ref[0]:
            raise Violation(
                "output differs between configurations that must agree",
                op=op0, configuration={"built_with": mod, "mode": mode}, reference={"built_with": module, "mode": "mem", "digests": ref[0]}, got=got,
            )
        ctx.count("configuration-comparisons")
    # (4) history on the same objects
    fonts, ds = build_source(source, module)
    shared = {}  # equal options in a history are passed as the very same objects (lists, dicts, writer and filter instances), as a caller reusing its arguments would
    for i, op in enumerate(case["ops"]):
        key = json.dumps(op["opts"], sort_keys=True)
        if key in shared:
            ctx.label("history-reuses-option-objects")
        try:
            kw = shared.setdefault(key, c07.make_options(op["opts"]))
            got = call(fonts, ds, op, kw=dict(kw))
        except Exception as e:
            got = "exc:" + type(e).__name__
        if got != ref[i]:
            raise Violation("output depends on the call history", call_index=i, history=case["ops"][: i + 1], reference=ref[i], got=got)
        ctx.count("history-calls")
    ctx.label(source["kind"])
    ctx.label("config=" + str(case.get("config")))
    if len(case["ops"]) >= 2:
        ctx.label("history>=2")
    if any(isinstance(r, str) for r in ref):
        ctx.label("some-call-raised")
    if source["kind"] == "family" and any(op["fn"] in ("compileTTF", "compileOTF") for op in case["ops"]) and any(op["fn"].startswith("compileVariable") for op in case["ops"]):
        ctx.label("static-and-variable-in-one-history")
    if source["kind"] == "family" and "public.fontInfo" in source["fam"].get("lib", {}):
        ctx.label("designspace-fontinfo-override")
    if any("ftConfig" in op["opts"] for op in case["ops"]):
        ctx.label("ftConfig")
    if any(g["name"] == "cpa" for g in src["glyphs"]):
        ctx.label("one-PropagateAnchors-instance-serves-several-calls")
    if any(g["name"] == "pmA_pmB" for g in src["glyphs"]):
        ctx.label("ligature-mark-composite-with-overshooting-control-points")
    if "openTypeVheaVertTypoAscender" in src.get("info", {}):
        ctx.label("vertical-metrics-with-tied-origins")
    if len(src.get("groups", {})) >= 16 and any(v for op in case["ops"] for v in op["opts"].get("ftConfig", {}).values()):
        ctx.label("gpos-compaction-on-sparse-class-kerning")
    nmark = len({a["name"] for g in src["glyphs"] for a in g.get("anchors", []) if a["name"].startswith("_")})
    ngroups = len([k for k in src.get("groups", {}) if k.startswith("public.kern1.")])
    if nmark >= 2:
        ctx.label("mark-classes>=2")
    if ngroups >= 2:
        ctx.label("kern-groups>=2")
    if any(a["name"].startswith("*") for g in src["glyphs"] for a in g.get("anchors", [])):
        ctx.label("contextual-anchor")
    ctx.nontrivial((nmark >= 2 or ngroups >= 2) and len(case["ops"]) >= 2)


MANIFEST = {
    "technique": "property-based differential / metamorphic testing (Hypothesis): digests across hash-seed worker processes, UFO libraries, disk round trips, inplace flag and generated call histories",
    "text": "Generated sources and call histories; every returned font is hashed and compared across three other PYTHONHASHSEED values (persistent worker processes), "
    "both UFO libraries in memory and through save/reopen, inplace on a private copy, and the same call on freshly built sources. Counterexample search only.",
    "note": "No threads exist in ufo2ft, so schedules are covered as hash-seed and call-order variation. Sources that trigger the C07 known finding are excluded.",
}
