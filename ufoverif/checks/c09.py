"""C09 - interpolatable compilation keeps compatible masters compatible."""
import io

from hypothesis import strategies as st

from ufoverif import family as F, gen, otread, refmodel as R, spec as S
from ufoverif.checks.c01 import extent
from ufoverif.runner import Discard, Violation, guard

ID = "C09"
RULE = (
    "case = family of 2-4 point-compatible masters (random master; masters k>0 are position-based perturbations of amplitude 0.1-5, so that single-master cu2qu "
    "would pick different spline lengths; cubic / quadratic / mixed curves; nested, mixed and repeated-base composites; a component whose 2x2 differs in one master "
    "at any component index; a 2x2 entry of exactly 2 or just beyond +-2; one component merged into the outline in one later master only (plain call); an interior line that has zero length in one master only; optional sparse master (a layer or a font of its own), a base interpolated twice at the sparse location; designspace or plain list of UFOs) x "
    "{compileInterpolatableTTFs, compileInterpolatableTTFsFromDS, compileInterpolatableOTFsFromDS} x {flattenComponents, skipExportGlyphs, lib filters, optimizeCFF}; "
    "oracle = structure signature per output glyph (TrueType: contour end points + on/off flags, or component bases + quantised 2x2; CFF: operator sequence per contour "
    "in three readings of a closed contour's last line: as written, implied line added, written-out closing line dropped) equal in every master font containing the glyph; simple-vs-composite decided jointly; sparse masters contain only .notdef, layer "
    "glyphs and their component closure; and (TrueType) every full master renders its own source master within the C02 bound (masters bent or filled alike stay "
    "compatible but are not faithful); a pure composite with matching representable 2x2 stays a composite of the same bases; cu2qu reporting incompatible glyphs for compatible sources is a violation. Non-trivial = single-master cu2qu would choose different spline lengths for some glyph, or a 2x2 differs, or a sparse master. "
    "Distinct = case hash."
)
ASSUMPTIONS = [
    "fontTools' glyf / CFF readers report the compiled structure",
    "source compatibility holds by construction; families in which the closing point of a contour coincides with its start in some masters only are excluded by the position-based perturbation (DESIGN.md P20)",
    "cu2qu may fail to find a common approximation (documented error): discarded and counted",
    "a component whose 2x2 determinant changes sign between masters (mirrored in some masters only) is outside the domain: mirrored components are decomposed with reversed contours, so no decomposition of such a component can be compatible across masters; discarded and counted",
]
N = {"quick": (8, 110), "thorough": (16, 600)}
FLOORS = {"ttf": 0.219, "otf": 0.1, "sparse-master": 0.1, "differing-2x2": 0.101, "cubic": 0.289}  # a third of the measured frequency: a starving generator is a harness error, sampling noise is not


@st.composite
def _case(draw):
    spec = draw(gen.outline_font(max_glyphs=6, allow_open=False, notdef=True))
    names = [g["name"] for g in spec["glyphs"] if g["name"] != ".notdef"]
    for g in spec["glyphs"]:
        g["width"] = abs(g.get("width", 0))
    # a composite that uses the same base twice (and once more nested)
    if names and draw(st.booleans()):
        b = names[0]
        spec["glyphs"].append({"name": "twice", "width": 500, "unicodes": [], "components": [{"base": b, "t": [1, 0, 0, 1, 0, 0]}, {"base": b, "t": [1, 0, 0, 1, 300, 0]}]})
        spec["glyphs"].append({"name": "nest", "width": 500, "unicodes": [], "components": [{"base": "twice", "t": [1, 0, 0, 1, 0, 50]}, {"base": b, "t": [1, 0, 0, 1, 10, 0]}]})
        if draw(st.booleans()):
            # a component scaled exactly to the F2Dot14 limit: still representable, still a component
            spec["glyphs"].append({"name": "dbl", "width": 500, "unicodes": [], "components": [{"base": b, "t": draw(st.sampled_from([[2, 0, 0, 2, 0, 0], [-2, 0, 0, 1, 0, 0], [1, 0, 0, 2.0, 5, 0]]))}]})
    names = [g["name"] for g in spec["glyphs"] if g["name"] != ".notdef"]
    nm = draw(st.integers(2, 4))
    locs = [0, 1000, 500, 250][:nm]
    fam = {
        "base": spec,
        "masters": [{"k": i, "loc": {"Weight": l}} for i, l in enumerate(locs)],
        "axes": [{"name": "Weight", "tag": "wght", "minimum": 0, "default": 0, "maximum": 1000}],
        "amp": draw(st.sampled_from([0.1, 1, 1, 5])),
        "diff2x2": False,
        "tweaks": [],
    }
    comps = [(g["name"], j) for g in spec["glyphs"] for j in range(len(g.get("components", [])))]
    if comps and draw(st.booleans()):
        gname, j = draw(st.sampled_from(comps))
        fam["tweaks"].append({"kind": "diff2x2", "glyph": gname, "comp": j, "master": draw(st.integers(0, nm - 1)), "factor": draw(st.sampled_from([1.1, 0.9, 1.5])),
                              **draw(st.sampled_from([{}, {"entry": 0}, {"entry": 1}, {"entry": 2}, {"entry": 3}, {"entry": 3}]))})
    if any(g["name"] == "twice" for g in spec["glyphs"]) and next(g for g in spec["glyphs"] if g["name"] == names[0]).get("contours") and draw(st.sampled_from([True, False, False])):
        # "mixed glyphs in only one master": one component of 'twice' is merged into the outline in one later master
        fam["tweaks"].append({"kind": "inline-component", "glyph": "twice", "comp": draw(st.integers(0, 1)), "master": draw(st.integers(1, nm - 1))})
    lines = [(g["name"], ci, pi) for g in spec["glyphs"] for ci, c in enumerate(g.get("contours", [])) for pi in range(1, len(c) - 1) if c[pi][2] == "line" and c[pi - 1][2] is not None]
    if lines and draw(st.sampled_from([True, False, False])):
        gname, ci, pi = draw(st.sampled_from(lines))
        fam["tweaks"].append({"kind": "zero-length", "glyph": gname, "contour": ci, "point": pi, "master": draw(st.integers(0, nm - 1))})
    entry = draw(st.sampled_from(["TTFsFromDS", "TTFsFromDS", "OTFsFromDS", "OTFsFromDS", "TTFs"]))
    if entry != "TTFs" and draw(st.sampled_from([True, False, False])):
        sub = draw(st.lists(st.sampled_from(names), min_size=1, max_size=max(1, len(names) // 2), unique=True))
        if "nest" in names and draw(st.booleans()):
            # a composite in the layer whose nested composite base is not in the layer
            sub = sorted((set(sub) | {"nest"}) - {"twice"})
        fam["sparse"] = {"k": 4, "loc": {"Weight": draw(st.sampled_from([300, 600, 850]))}, "names": sorted(sub)}
    if fam.get("sparse") and draw(st.sampled_from([True, False, False])):
        fam["sparse"]["own_ufo"] = True
    if fam.get("sparse") and draw(st.sampled_from([True, False, False])):
        fam["sparse"]["listed"] = "second"
    opts = {}
    if entry.startswith("TTF") and draw(st.booleans()):
        opts["flattenComponents"] = True
    if entry == "OTFsFromDS" and draw(st.booleans()):
        # SUBROUTINIZE on interpolatable masters is outside the domain: cffsubr's tx rejects sparse masters (no cmap)
        opts["optimizeCFF"] = draw(st.sampled_from([0, 1, 1]))
    if draw(st.sampled_from([True, False, False, False])):
        opts["skipExportGlyphs"] = [draw(st.sampled_from(names))]
        if "nest" in names and draw(st.booleans()):
            # a non-exported pure composite of another non-exported glyph, used by an exported composite
            opts["skipExportGlyphs"] = [names[0], "twice"]
    if draw(st.sampled_from([True, False, False, False])):
        spec.setdefault("lib", {})["com.github.googlei18n.ufo2ft.filters"] = [draw(st.sampled_from([{"name": "decomposeTransformedComponents", "pre": True}, {"name": "propagateAnchors", "pre": True}, {"name": "flattenComponents", "pre": True}]))]
    simple = [g["name"] for g in spec["glyphs"] if g.get("contours") and not g.get("components") and g["name"] != ".notdef"]
    if entry != "TTFs" and simple and draw(st.sampled_from([True, False, False, False])):
        # one base interpolated at a sparse location twice: first for a mixed glyph (decomposed before curve conversion), then for a transformed
        # composite decomposed by a post-filter - with the glyph sets rewritten by the default filters in between
        b = simple[0]
        spec["glyphs"].append({"name": "mixb", "width": 500, "unicodes": [], "contours": [[[0, 0, "line"], [30, 0, "line"], [10, 40, "line"]]], "components": [{"base": b, "t": [1, 0, 0, 1, 5, 0]}]})
        spec["glyphs"].append({"name": "trb", "width": 500, "unicodes": [], "components": [{"base": b, "t": [0.5, 0, 0, 0.5, 0, 0]}]})
        fam["sparse"] = {"k": 4, "loc": {"Weight": draw(st.sampled_from([300, 600, 850]))}, "names": sorted((set((fam.get("sparse") or {}).get("names", [])) | {"mixb", "trb"}) - {b})}
        spec.setdefault("lib", {})["com.github.googlei18n.ufo2ft.filters"] = [{"name": "decomposeTransformedComponents"}]
        opts.pop("skipExportGlyphs", None)
    if entry != "TTFs" and len(simple) >= 2 and draw(st.sampled_from([True, False, False, False])):
        # a sparse source listed between the full masters that defines neither a mixed glyph nor that glyph's base: the masters after it still decompose
        # the mixed glyph from their own layer
        b2 = simple[1]
        spec["glyphs"].append({"name": "mixo", "width": 500, "unicodes": [], "contours": [[[0, 0, "line"], [30, 0, "line"], [10, 40, "line"]]], "components": [{"base": b2, "t": [1, 0, 0, 1, 50, 0]}]})
        keep = sorted(set((fam.get("sparse") or {}).get("names", [])) - {"mixo", b2}) or [simple[0]]
        fam["sparse"] = dict(fam.get("sparse") or {"k": 4, "loc": {"Weight": draw(st.sampled_from([300, 600, 850]))}}, names=keep, listed="second")
        ovt = draw(st.sampled_from([None, [2.2, 0, 0, 2.2, 0, 0], [-2.1, 0, 0, 1, 0, 0], [-2.1, 0, 0, 1, 0, 0], [1, 0, 0, -2.2, 40, 0]]))
        if ovt is not None:
            # ... and a composite in the layer whose component transform is beyond the F2Dot14 range (either sign), its base outside the layer
            spec["glyphs"].append({"name": "ovb", "width": 500, "unicodes": [], "components": [{"base": b2, "t": ovt}]})
            fam["sparse"]["names"] = sorted(set(keep) | {"ovb"})
    if opts or spec.get("lib", {}).get("com.github.googlei18n.ufo2ft.filters") or fam.get("sparse"):
        # "mixed in one master only" is decided jointly by the default pipeline; custom filters and skip lists run before that decision and see masters whose
        # component structure differs (outside the statement's precondition - DESIGN 10.14), so the tweak is kept for the plain call only
        fam["tweaks"] = [t for t in fam["tweaks"] if t["kind"] != "inline-component"]
    return {"fam": fam, "module": draw(st.sampled_from(["ufoLib2", "defcon"])), "entry": entry, "opts": opts}


def strategy(tier):
    return _case()


def sample_view(case):
    fam = case["fam"]
    return {"module": case["module"], "entry": case["entry"], "opts": case["opts"], "masters": [m["loc"] for m in fam["masters"]], "amp": fam["amp"], "tweaks": fam["tweaks"], "sparse": fam.get("sparse"),
            "glyphs": [[g["name"], len(g.get("contours", [])), [(c["base"], c["t"][:4]) for c in g.get("components", [])]] for g in fam["base"]["glyphs"]]}


def sig_tt(font, name):
    g = font["glyf"][name]
    if g.isComposite():
        return ("C", tuple((c.glyphName, tuple(map(tuple, c.transform)) if hasattr(c, "transform") else None) for c in g.components))
    if g.numberOfContours <= 0:
        return ("E",)
    return ("S", tuple(g.endPtsOfContours), tuple(f & 0x81 for f in g.flags))


def sig_cff(font, name, closing_explicit=False, closing_stripped=False):
    """per contour the sequence of charstring drawing operators - what the variable-font merger aligns. Two readings, because a closed contour's last
    line may be written out or left implied: raw = the explicit operators; closing_explicit = plus the implied closing line where the last explicit
    point is not the start point. Masters are compatible when they agree in either reading (rounding can move a master's last point onto its first,
    and a zero-length closing line in one master is written out by fontTools' point-to-segment conversion: neither changes what can be merged).
    Third reading, closing_stripped = minus a written-out last line that ends on the start point (the same closed path as with the line left implied):
    needed when both coincidences meet in one family - one master writes a zero-length closing line out, in another rounding moved the last point onto
    the first so that no closing line exists in either form (thorough run, seed 5)."""
    out = []
    for c in otread.draw_cycles(font.getGlyphSet(), name):
        ops = [op for op, _ in c[1]]
        end = c[1][-1][1][-1] if c[1] else c[0]
        if closing_explicit and end != c[0]:
            ops.append("line")
        if closing_stripped and len(ops) > 1 and ops[-1] == "line" and end == c[0]:
            ops.pop()
        out.append(tuple(ops))
    return ("O", tuple(out)) if out else ("E",)


def overflow_on_missing_base(gi, name, layer, seen=None):
    """input class of KF-C09-1: `name` reaches, through component references, a component whose 2x2 has an entry beyond the F2Dot14 range (fontTools' pen
    then decomposes the composite while the glyph is drawn, per master) and whose base is not in the sparse layer (an empty placeholder there)"""
    seen = seen if seen is not None else set()
    if name in seen or name not in gi:
        return False
    seen.add(name)
    for c in gi[name].get("components", []):
        if any(abs(v) > 2 for v in c["t"][:4]) and not _closed_in_layer(gi, c["base"], layer):
            return True
        if overflow_on_missing_base(gi, c["base"], layer, seen):
            return True
    return False


def _closed_in_layer(gi, name, layer, seen=None):
    seen = seen if seen is not None else set()
    if name in seen:
        return True
    seen.add(name)
    if name not in layer or name not in gi:
        return False
    return all(_closed_in_layer(gi, c["base"], layer, seen) for c in gi[name].get("components", []))


def reload(t):
    from fontTools.ttLib import TTFont

    b = io.BytesIO()
    try:
        t.save(b)
    except Exception:
        # interpolatable masters are in-memory intermediates: a sparse master compiled with all tables carries placeholder glyphs of advance 0xFFFF,
        # which OS/2.xAvgCharWidth cannot store. The glyph data is then read from the in-memory font.
        return t
    return TTFont(io.BytesIO(b.getvalue()))


def run_case(case, ctx):
    import ufo2ft
    from fontTools.cu2qu import curve_to_quadratic
    from fontTools.cu2qu.errors import Error as Cu2QuError

    fam, entry, opts = case["fam"], case["entry"], dict(case["opts"])
    if extent(fam["base"]) > 3000:
        raise Discard("resolved coordinate beyond +-3000 (perturbed masters would leave the format range)")
    module = S.ufo_module(case["module"])
    ms_ = F.master_specs(fam)
    for gidx, g0 in enumerate(ms_[0]["glyphs"]):
        if len({len(m_["glyphs"][gidx].get("components", [])) for m_ in ms_}) > 1:
            continue  # a component merged into the outline in one master (inline-component tweak): no index-wise correspondence
        for cidx, c0 in enumerate(g0.get("components", [])):
            signs = {R.det(m_["glyphs"][gidx]["components"][cidx]["t"]) < 0 for m_ in ms_}
            if len(signs) > 1:
                # a mirrored component is decomposed with its contour reversed; a component that is mirrored in some masters only has no compatible decomposition at all
                raise Discard("a component's determinant changes sign between masters")
    ds, fonts = F.build_designspace(fam, module)
    if entry != "TTFs" and "skipExportGlyphs" in opts:
        # the designspace entry points take the skip list from the designspace lib (a skipExportGlyphs argument is overridden there)
        ds.lib["public.skipExportGlyphs"] = list(opts.pop("skipExportGlyphs"))
    kw = dict(useProductionNames=False, featureWriters=[], **opts)
    try:
        with guard("compileInterpolatable" + entry, allowed=(Cu2QuError,)):
            if entry == "TTFs":
                out = [reload(t) for t in ufo2ft.compileInterpolatableTTFs(fonts, **kw)]
            elif entry == "TTFsFromDS":
                res = ufo2ft.compileInterpolatableTTFsFromDS(ds, **kw)
                out = [reload(s.font) for s in sorted(res.sources, key=lambda s_: (s_.name == "sparse", s_.name or ""))]  # full masters first, whatever the listing order
            else:
                res = ufo2ft.compileInterpolatableOTFsFromDS(ds, **kw)
                out = [reload(s.font) for s in sorted(res.sources, key=lambda s_: (s_.name == "sparse", s_.name or ""))]
    except Cu2QuError as e:
        from fontTools.cu2qu.errors import IncompatibleFontsError, IncompatibleGlyphsError

        if isinstance(e, (IncompatibleFontsError, IncompatibleGlyphsError)):
            # compatible sources reached the curve conversion in incompatible shape: something before it treated the masters differently
            raise Violation("cu2qu was handed glyphs that are not compatible across masters although the sources are", error=type(e).__name__, detail=str(e)[:300], tweaks=fam["tweaks"], options=case["opts"])
        raise Discard("cu2qu could not find a common approximation")
    ttf = entry.startswith("TTF")
    sig = sig_tt if ttf else sig_cff
    nfull = len(fam["masters"])
    gi_base = R.glyph_index(fam["base"])
    sparse = fam.get("sparse") and entry != "TTFs"
    allnames = set().union(*[set(f.getGlyphOrder()) for f in out])
    for n in sorted(allnames):
        sigs = {}
        for i, f in enumerate(out):
            if n in f.getGlyphOrder():
                sigs[i] = sig(f, n)
        vals = set(sigs.values())
        in_layer = bool(sparse) and n in fam["sparse"]["names"]
        if sparse:
            # empty placeholder bases in the sparse master are allowed - for glyphs that are not in its layer
            vals = {s for i, s in sigs.items() if not (i >= nfull and s == ("E",) and not in_layer)}
        if len(vals) > 1 and not ttf:
            alt = {i: sig_cff(f, n, closing_explicit=True) for i, f in enumerate(out) if n in f.getGlyphOrder()}
            avals = {s_ for i, s_ in alt.items() if not (sparse and i >= nfull and s_ == ("E",) and not in_layer)}
            if len(avals) > 1:
                alt = {i: sig_cff(f, n, closing_stripped=True) for i, f in enumerate(out) if n in f.getGlyphOrder()}
                avals = {s_ for i, s_ in alt.items() if not (sparse and i >= nfull and s_ == ("E",) and not in_layer)}
            if len(avals) <= 1:
                vals = avals
                ctx.count("cff-glyphs-compatible-modulo-explicit-closing-line")
        if ttf and in_layer and overflow_on_missing_base(gi_base, n, set(fam["sparse"]["names"])):
            ctx.count("glyphs-in-fixed-finding-class(KF-C09-1)")  # counted only: the finding is repaired, nothing is excluded
        if len(vals) > 1:
            raise Violation("masters are not point-compatible for a glyph", glyph=n, signatures={str(i): repr(s)[:300] for i, s in sigs.items()}, tweaks=fam["tweaks"], options=case["opts"])
        ctx.count("glyph-signatures-compared")
    if sparse:
        sp = out[-1]
        base_gi = R.glyph_index(fam["base"])
        layer = set(fam["sparse"]["names"])
        skip = set(case["opts"].get("skipExportGlyphs", []))
        allowed = {".notdef"} | layer
        changed = True
        while changed:  # closure under "is a component of / has as component"
            changed = False
            for g in fam["base"]["glyphs"]:
                bases = {c["base"] for c in g.get("components", [])}
                if g["name"] in allowed and not bases <= allowed:
                    allowed |= bases
                    changed = True
                if bases & allowed and g["name"] not in allowed:
                    allowed.add(g["name"])
                    changed = True
        extra = set(sp.getGlyphOrder()) - allowed
        if extra:
            raise Violation("sparse master contains glyphs not tied to its layer by component references", extra=sorted(extra), layer=sorted(layer))
        missing = (layer - skip) - set(sp.getGlyphOrder())
        if missing:
            raise Violation("sparse master lacks glyphs of its layer", missing=sorted(missing))
        ctx.label("sparse-master")
        if fam["sparse"].get("own_ufo"):
            ctx.label("sparse-master-is-its-own-ufo")
        if fam["sparse"].get("listed") == "second":
            ctx.label("sparse-source-listed-between-the-masters")
    # master fidelity (TrueType): every full master renders its own source within the C02 bound - a slip that bends all masters the same way
    # (or fills a master from another master's glyphs) keeps them compatible but not faithful
    if ttf:
        from ufoverif import geom
        from ufoverif.checks import c02

        mspecs = F.master_specs(fam)
        skipped = set(case["opts"].get("skipExportGlyphs", []))
        upm = fam["base"]["info"].get("unitsPerEm", 1000)
        gi_all = [R.glyph_index(ms__) for ms__ in mspecs[:nfull]]
        for i in range(nfull):
            gi_m = R.glyph_index(mspecs[i])
            glyf = out[i]["glyf"]
            memo = {}
            for n in out[i].getGlyphOrder():
                if n not in gi_m or n in skipped:
                    continue
                src = [R.cycle(pts) for pts, rev in R.resolve(gi_m, n)]
                src = [c_ for c_ in src if c_ is not None]
                got_r = c02.render_tt(glyf, n)
                if len(src) != len(got_r):
                    raise Violation("number of rendered contours of a master differs from its source", master=i, glyph=n, got=len(got_r), expected=len(src))
                tolm = c02.tol_of(glyf, gi_m, n, 0.001 * upm, memo) + 0.15
                bad = c02.match_contours([geom.flatten_cycle(c_, 0.05) for c_ in src], [geom.flatten_cycle(c_, 0.05) for c_ in got_r], tolm)
                if bad is not None:
                    raise Violation("a compiled master does not render its own source master", master=i, glyph=n, tolerance=tolm, worst_point=bad[1], options=case["opts"])
                ctx.count("master-glyphs-compared-with-their-source")
                # a pure composite whose 2x2 is the same in every master and fits F2Dot14 (entries within [-2, 2]) has no reason to be decomposed
                g_src = [gi_k.get(n) for gi_k in gi_all]
                if (not case["opts"] and not fam["base"].get("lib", {}).get("com.github.googlei18n.ufo2ft.filters") and all(g_ and g_.get("components") and not g_.get("contours") for g_ in g_src)
                        and len({tuple(tuple(c_["t"][:4]) for c_ in g_["components"]) for g_ in g_src}) == 1
                        and all(-2 <= v_ <= 2 for c_ in g_src[0]["components"] for v_ in c_["t"][:4])):
                    if not glyf[n].isComposite() or [c_.glyphName for c_ in glyf[n].components] != [c_["base"] for c_ in g_src[i]["components"]]:
                        raise Violation("a pure composite with matching, representable component matrices was not kept as a composite of the same bases", master=i, glyph=n,
                                        components=[(c_["base"], c_["t"][:4]) for c_ in g_src[i]["components"]])
                    ctx.count("composites-checked-to-stay-composite")
    # classification
    cubic = any(p[2] == "curve" for g in fam["base"]["glyphs"] for c in g.get("contours", []) for p in c)
    if cubic:
        ctx.label("cubic")
    if any(t["kind"] == "diff2x2" for t in fam["tweaks"]):
        ctx.label("differing-2x2")
    if any(t["kind"] == "inline-component" for t in fam["tweaks"]):
        ctx.label("glyph-mixed-in-one-master-only")
    for t in fam["tweaks"]:
        if t["kind"] == "diff2x2" and "entry" in t:
            ctx.label("differing-2x2-entry-%s-only" % ("xx", "xy", "yx", "yy")[t["entry"]])
    if any(t["kind"] == "zero-length" for t in fam["tweaks"]):
        ctx.label("zero-length-line-in-one-master")
    ctx.label("ttf" if ttf else "otf")
    ctx.label("entry=" + entry)
    if any(g["name"] == "mixo" for g in fam["base"]["glyphs"]):
        ctx.label("mixed-glyph-and-its-base-outside-a-sparse-source-listed-second")
    if any(g["name"] == "ovb" for g in fam["base"]["glyphs"]):
        ctx.label("overflowing-component-in-sparse-layer")
    if any(g["name"] == "trb" for g in fam["base"]["glyphs"]):
        ctx.label("base-interpolated-twice-at-sparse-location")
    # would single-master conversion have chosen different spline lengths?
    differs = False
    if ttf and cubic:
        specs = F.master_specs(fam)
        for gi_, g in enumerate(specs[0]["glyphs"]):
            for ci, c in enumerate(g.get("contours", [])):
                cyc = [R.cycle(sp["glyphs"][gi_]["contours"][ci]) for sp in specs]
                for si in range(len(cyc[0][1])):
                    if cyc[0][1][si][0] != "curve":
                        continue
                    lens = set()
                    for cy in cyc:
                        prev = cy[0] if si == 0 else cy[1][si - 1][1][-1]
                        pts = [prev] + list(cy[1][si][1])
                        try:
                            lens.add(len(curve_to_quadratic(pts, 1.0)))
                        except Exception:
                            pass
                    if len(lens) > 1:
                        differs = True
    if differs:
        ctx.label("single-master-cu2qu-would-differ")
    ctx.nontrivial(differs or any(t["kind"] == "diff2x2" for t in fam["tweaks"]) or bool(sparse))


MANIFEST = {
    "technique": "property-based testing (Hypothesis): generated compatible master families, structural signature invariant across the compiled masters",
    "text": "Generated families (perturbations of a random master that keep point structure), compiled through the three interpolatable entry points with generated options; "
    "every output glyph's structure signature must be identical in all masters that contain it; sparse master glyph sets are checked against the component closure of their "
    "layer. Counterexample search only.",
    "note": "Source compatibility by construction. Families whose closing-point coincidence differs between masters are outside the generator (DESIGN.md P20).",
}
