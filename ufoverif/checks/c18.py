"""C18 - GDEF classes, ligature carets and cursive anchors mirror the UFO data."""
import io

from hypothesis import strategies as st

from ufoverif import refmodel as R, spec as S
from ufoverif.runner import Discard, Violation, guard

ID = "C18"
RULE = (
    "case = (3-10 glyphs over Latin/Cyrillic/Arabic/Hebrew/neutral/unencoded glyphs, ligatures and GSUB alternates incl. alternates and ligatures reachable only "
    "through rules that also involve a script-neutral glyph; public.openTypeCategories with valid, invalid, missing-glyph and skipped-glyph entries; caret_/vcaret_ "
    "anchors incl. duplicates, coordinate 0, fractional and x.5 values; entry/exit anchors one-sided, suffixed .LTR/.RTL/.other and compound (.2.LTR, .alt.RTL), one or two pairs per glyph; optional user GDEF block defining "
    "GlyphClassDef and/or LigatureCaret; optional skipExportGlyphs; writers passed as classes or as instances that were first used on a different font) x "
    "{ufoLib2, defcon}; oracle = GDEF.GlyphClassDef == categories restricted to exported glyphs (or exactly the user's), LigCaretList == sorted distinct rounded caret "
    "coordinates, one EntryExitRecord per glyph and anchor pair with the rounded coordinates (missing side NULL) in a lookup whose RightToLeft flag is cleared exactly for "
    ".LTR pairs and for unsuffixed pairs on glyphs in the left-to-right closure, IgnoreMarks always set. Non-trivial = mixed-direction repertoire with a one-sided "
    "cursive glyph, or categories naming a skipped/missing glyph, or a caret at 0. Distinct = case hash."
)
ASSUMPTIONS = [
    "fontTools' GDEF/GPOS readers; Unicode script direction from fontTools.unicodedata",
    "the left-to-right closure is computed from the substitutions the generator wrote (single, ligature and contextual rules), not from the compiled GSUB",
    "anchor names are unique per glyph except for deliberately duplicated caret coordinates",
]
N = {"quick": (8, 150), "thorough": (16, 1200)}
FLOORS = {"mixed-direction": 0.2, "one-sided-cursive": 0.15, "categories": 0.155, "carets": 0.254, "caret-at-zero": 0.03, "user-gdef": 0.08, "writer-instances-reused": 0.099}  # a third of the measured frequency: a starving generator is a harness error, sampling noise is not

POOL = [("A", 0x41), ("a", 0x61), ("n", 0x6E), ("o", 0x6F), ("be-cy", 0x431), ("alef-ar", 0x627), ("beh-ar", 0x628), ("lam-ar", 0x644), ("bet-hb", 0x5D1), ("period", 0x2E),
        ("hyphen", 0x2D), ("space", 0x20), ("one", 0x31), ("dual", (0x71, 0x62C)), ("mu", (0xB5, 0x3BC)), ("f_i", None), ("lam_alef-ar", 0xFEFB), ("acutecomb", 0x301), ("unenc", None),
        ("a.alt", None), ("beh-ar.fina", None), ("n.fina", None), ("o_hyphen_o", None), ("period.alt", None), ("a.swash", None), ("a.bold", None)]
DS_RULE_ALTS = ("a.swash", "a.bold")  # reachable only through designspace rules (two rules with the same left-hand glyph)
# substitutions the generator may write: (inputs, output, fea text)
RULES = {
    "a.alt": (["a"], "sub a by a.alt;"),
    "beh-ar.fina": (["beh-ar"], "sub beh-ar by beh-ar.fina;"),
    "n.fina": (["n", "space"], "sub n' space by n.fina;"),
    "o_hyphen_o": (["o", "hyphen", "o"], "sub o hyphen o by o_hyphen_o;"),
    "period.alt": (["period"], "sub period by period.alt;"),
}
coord = st.one_of(st.integers(-200, 900), st.integers(-400, 1800).map(lambda k: k / 2), st.integers(-2000, 9000).map(lambda k: k / 10), st.sampled_from([0, 0, 0.5, -0.5, 0.49]))


@st.composite
def _font(draw, force_names=None):
    names = draw(st.lists(st.sampled_from(POOL), min_size=3, max_size=10, unique=True))
    have = {n for n, _ in names}
    names = [n for n in names if n[0] not in RULES or all(i in have for i in RULES[n[0]][0])]
    glyphs = []
    for n, u in names:
        g = {"name": n, "width": 500, "unicodes": (list(u) if isinstance(u, tuple) else [u]) if u else [], "contours": [[[0, 0, "line"], [100, 0, "line"], [100, 100, "line"]]], "anchors": []}
        if isinstance(u, tuple) and draw(st.booleans()):
            g["unicodes"].reverse()  # a glyph encoded at a left-to-right and a right-to-left code point
        r = draw(st.integers(0, 9)) if n not in ("dual", "mu") else draw(st.integers(0, 5))
        if r <= 4:
            sfxs = draw(st.lists(st.sampled_from(["", "", "", ".LTR", ".RTL", ".foo", ".2.LTR", ".alt.RTL", ".2.RTL", ".alt.LTR", ".1", ".narrow", ".top", ".y", ".end.RTL"]), min_size=1, max_size=2, unique=True))
            for sfx in sfxs:
                which = draw(st.sampled_from(["both", "entry", "exit"]))
                if which in ("both", "entry"):
                    g["anchors"].append({"name": "entry" + sfx, "x": draw(coord), "y": draw(coord)})
                if which in ("both", "exit"):
                    g["anchors"].append({"name": "exit" + sfx, "x": draw(coord), "y": draw(coord)})
        if r in (5, 6) or "_" in n:
            pre = draw(st.sampled_from(["caret_", "caret_", "vcaret_"]))
            # any anchor whose name starts with the prefix is a caret: numbered, bare or with a free-form suffix
            free = draw(st.booleans())
            sfx_pool = ["", "left", "1a", "1.alt", "top", "_", "10", "-1", "\u00e9"]  # not "0": the mark writer rejects every anchor name ending in _0 ("ligature component indexes must start from 1"), a documented input error
            for i in range(draw(st.integers(1, 3))):
                sfx = draw(st.sampled_from(sfx_pool)) if free else "%d" % (i + 1)
                if any(a["name"] == pre + sfx for a in g["anchors"]):
                    continue
                g["anchors"].append({"name": pre + sfx, "x": draw(coord), "y": draw(coord)})
            if draw(st.integers(0, 5)) == 0:
                # look-alikes that are not carets
                g["anchors"].append({"name": draw(st.sampled_from(["caret", "xcaret_1", "Caret_1", "vcaret"])), "x": draw(coord), "y": draw(coord)})
        glyphs.append(g)
    gn = [g["name"] for g in glyphs]
    spec = {"info": {"unitsPerEm": 1000}, "glyphs": glyphs, "lib": {}}
    if draw(st.booleans()):
        cats = {}
        for n in gn + ["ghost"]:
            if draw(st.booleans()):
                cats[n] = draw(st.sampled_from(["base", "mark", "ligature", "component", "unassigned", "bogus"]))
        spec["lib"]["public.openTypeCategories"] = cats
    unskippable = set(RULES) | {i for v in RULES.values() for i in v[0]}
    cand = [n for n in gn if n not in unskippable]
    skip = draw(st.lists(st.sampled_from(cand), max_size=1)) if cand and draw(st.integers(0, 3)) == 0 else []
    if skip:
        spec["lib"]["public.skipExportGlyphs"] = skip
    fea = ""
    alts = [n for n in gn if n in RULES]
    if alts:
        fea += "feature calt {\n" + "".join("  %s\n" % RULES[n][1] for n in alts) + "} calt;\n"
    user = draw(st.sampled_from(["", "", "", "classes", "carets", "both", "both-carets-first"]))
    exported = [n for n in gn if n not in skip]
    if user:
        fea += "table GDEF {\n"
        stmts = []
        if user.startswith(("classes", "both")):
            b = [n for n in exported if "comb" not in n][:3]
            m = [n for n in exported if "comb" in n]
            stmts.append("  GlyphClassDef [%s], , [%s], ;\n" % (" ".join(b), " ".join(m)))
        if user.startswith(("carets", "both")) and exported:
            stmts.append("  LigatureCaretByPos %s 123;\n" % exported[0])
        fea += "".join(stmts[::-1] if user == "both-carets-first" else stmts)
        fea += "} GDEF;\n"
    spec["features"] = fea
    spec["alts"] = alts
    spec["user_gdef"] = user
    return spec


@st.composite
def _case(draw):
    spec = draw(_font())
    case = {"spec": spec, "module": draw(st.sampled_from(["ufoLib2", "defcon"]))}
    if draw(st.sampled_from([True, False, False, False])):
        case["first"] = draw(_font())  # the same writer instances are used on this font first
    names = [g["name"] for g in spec["glyphs"]]
    if "a" in names and any(n in names for n in DS_RULE_ALTS) and "public.skipExportGlyphs" not in spec["lib"] and draw(st.booleans()):
        # compiled as the masters of a designspace whose rules substitute 'a' by these alternates (per-master feature compilation)
        case["ds_rules"] = [["a", n] for n in DS_RULE_ALTS if n in names]
        case.pop("first", None)
    elif "public.skipExportGlyphs" not in spec["lib"] and not spec.get("user_gdef") and draw(st.integers(0, 4)) == 0:
        # a variable font (variable features) whose default source is listed second; the first source carries a stale category map
        case["vf_default_second"] = True
        case.pop("first", None)
    return case


def strategy(tier):
    return _case()


def sample_view(case):
    sp = case["spec"]
    return {"module": case["module"], "reused_writers": "first" in case, "glyphs": [[g["name"], g["unicodes"], [(a["name"], a["x"], a["y"]) for a in g["anchors"]]] for g in sp["glyphs"]],
            "categories": sp["lib"].get("public.openTypeCategories"), "skip": sp["lib"].get("public.skipExportGlyphs"), "features": sp["features"]}


def closure(start, rules):
    s = set(start)
    changed = True
    while changed:
        changed = False
        for out, (inputs, _) in rules.items():
            if out not in s and all(i in s for i in inputs):
                s.add(out)
                changed = True
    return s


def strip(spec):
    return {k: v for k, v in spec.items() if k not in ("alts", "user_gdef")}


def run_case(case, ctx):
    import ufo2ft
    from fontTools import unicodedata as ud
    from fontTools.ttLib import TTFont
    from ufo2ft.featureWriters import CursFeatureWriter, GdefFeatureWriter, KernFeatureWriter, MarkFeatureWriter

    spec = case["spec"]
    module = S.ufo_module(case["module"])
    writers = None
    if "first" in case:
        writers = [KernFeatureWriter(), MarkFeatureWriter(), GdefFeatureWriter(), CursFeatureWriter()]
        try:
            ufo2ft.compileTTF(S.build(strip(case["first"]), module), useProductionNames=False, featureWriters=writers)
        except Exception:
            pass
    with guard("compileTTF"):
        if case.get("vf_default_second"):
            from fontTools.designspaceLib import AxisDescriptor, DesignSpaceDocument, SourceDescriptor

            ds = DesignSpaceDocument()
            ax = AxisDescriptor()
            ax.name, ax.tag, ax.minimum, ax.default, ax.maximum = "Weight", "wght", 0, 0, 1000
            ds.addAxis(ax)
            stale = strip(spec)
            stale["lib"] = dict(stale["lib"])
            if "public.openTypeCategories" in stale["lib"]:
                stale["lib"]["public.openTypeCategories"] = {k_: "ligature" for k_ in list(stale["lib"]["public.openTypeCategories"])[:1]}
            else:
                stale["lib"]["public.openTypeCategories"] = {(spec["glyphs"][0]["name"] if spec["glyphs"] else ".notdef"): "mark"}
            for nm_, sp_, w_ in (("bold", stale, 1000), ("regular", strip(spec), 0)):
                sd = SourceDescriptor()
                sd.font, sd.name, sd.location = S.build(sp_, module), nm_, {"Weight": w_}
                ds.addSource(sd)
            t = ufo2ft.compileVariableTTF(ds, useProductionNames=False)
            ctx.label("variable-font-default-source-listed-second")
        elif case.get("ds_rules"):
            from fontTools.designspaceLib import AxisDescriptor, DesignSpaceDocument, RuleDescriptor, SourceDescriptor

            ds = DesignSpaceDocument()
            ax = AxisDescriptor()
            ax.name, ax.tag, ax.minimum, ax.default, ax.maximum = "Weight", "wght", 0, 0, 1000
            ds.addAxis(ax)
            for k_ in (0, 1):
                sd = SourceDescriptor()
                sd.font, sd.name, sd.location = S.build(strip(spec), module), "m%d" % k_, {"Weight": 1000 * k_}
                ds.addSource(sd)
            for k_, (l_, r_) in enumerate(case["ds_rules"]):
                rd = RuleDescriptor()
                rd.name, rd.conditionSets, rd.subs = "r%d" % k_, [[{"name": "Weight", "minimum": 400 + 100 * k_, "maximum": 1000}]], [(l_, r_)]
                ds.addRule(rd)
            t = ufo2ft.compileInterpolatableTTFsFromDS(ds, useProductionNames=False).sources[1].font
            ctx.label("designspace-rules-with-shared-left-glyph" if len(case["ds_rules"]) > 1 else "designspace-rule")
        else:
            t = ufo2ft.compileTTF(S.build(strip(spec), module), useProductionNames=False, featureWriters=writers)
        b = io.BytesIO()
        t.save(b)
    t = TTFont(io.BytesIO(b.getvalue()))
    order = t.getGlyphOrder()
    gi = R.glyph_index(spec)
    cats = spec["lib"].get("public.openTypeCategories")
    user = spec.get("user_gdef", "")
    VALID = ("base", "mark", "ligature", "component", "unassigned")
    valid = {k: v for k, v in (cats or {}).items() if v in VALID}
    got = dict(t["GDEF"].table.GlyphClassDef.classDefs) if "GDEF" in t and t["GDEF"].table.GlyphClassDef else {}
    if user.startswith(("classes", "both")):
        exported = [g["name"] for g in spec["glyphs"] if g["name"] in order]
        b_ = [n for n in exported if "comb" not in n][:3]
        m_ = [n for n in exported if "comb" in n]
        exp = {n: 1 for n in b_} | {n: 3 for n in m_}
        if got != exp:
            raise Violation("GlyphClassDef differs from the one the user's GDEF block defines", got=got, expected=exp)
        ctx.label("user-gdef")
    elif cats is not None and any(v in VALID for v in cats.values()):
        exp = {n: {"base": 1, "ligature": 2, "mark": 3, "component": 4}[c] for n, c in valid.items() if n in order and c != "unassigned"}
        if got != exp:
            raise Violation("GlyphClassDef differs from public.openTypeCategories restricted to exported glyphs", got=got, expected=exp, categories=cats)
        ctx.count("classdefs-checked")
    # carets
    exp_carets = {}
    for n in order:
        if n not in gi:
            continue
        seen = {}
        for a in gi[n]["anchors"]:
            seen.setdefault(a["name"], a)
        vals = set()
        for name, a in seen.items():
            if name.startswith("caret_"):
                vals.add(R.ot_round(a["x"]))
            elif name.startswith("vcaret_"):
                vals.add(R.ot_round(a["y"]))
        if vals:
            exp_carets[n] = sorted(vals)
    got_carets = {}
    if "GDEF" in t and t["GDEF"].table.LigCaretList:
        l = t["GDEF"].table.LigCaretList
        for n, lg in zip(l.Coverage.glyphs, l.LigGlyph):
            got_carets[n] = [c.Coordinate for c in lg.CaretValue]
    exported = [g["name"] for g in spec["glyphs"] if g["name"] in order]
    if user.startswith(("carets", "both")) and exported:
        ctx.label("user-gdef")
        # a user block with carets: the writer leaves the caret list alone
        if got_carets != {exported[0]: [123]}:
            raise Violation("ligature carets differ from the ones the user's GDEF block defines", got=got_carets)
    else:
        norm = {k: sorted(set(v)) for k, v in got_carets.items()}
        if norm != exp_carets or any(v != sorted(v) for v in got_carets.values()):
            raise Violation("ligature carets differ from the caret_/vcaret_ anchors (sorted, distinct, rounded)", got=got_carets, expected=exp_carets)
    # cursive
    ltr_seed, neutral_seed = set(), set()
    for n in order:
        if n not in gi:
            continue
        for u in gi[n]["unicodes"]:
            sc = ud.script(chr(u))
            if sc in ("Zyyy", "Zinh"):
                neutral_seed.add(n)
            elif ud.script_horizontal_direction(sc, "LTR") == "LTR":
                ltr_seed.add(n)
    rules = {k: v for k, v in RULES.items() if k in spec.get("alts", [])}
    for l_, r_ in case.get("ds_rules", []):
        rules[r_] = ([l_], "")  # a designspace rule counts like a substitution
    neutral_closed = closure(neutral_seed, rules)
    ltr_closed = closure(ltr_seed | neutral_seed, rules) - neutral_closed
    ltr_closed |= ltr_seed
    split = bool(ltr_seed)
    recs = {}
    if "GPOS" in t:
        gp = t["GPOS"].table
        for lk in gp.LookupList.Lookup:
            for stt in lk.SubTable:
                if stt.LookupType == 9:
                    stt = stt.ExtSubTable
                if stt.LookupType != 3:
                    continue
                for n, r in zip(stt.Coverage.glyphs, stt.EntryExitRecord):
                    e = None if r.EntryAnchor is None else [r.EntryAnchor.XCoordinate, r.EntryAnchor.YCoordinate]
                    x = None if r.ExitAnchor is None else [r.ExitAnchor.XCoordinate, r.ExitAnchor.YCoordinate]
                    recs.setdefault(n, []).append([e, x, bool(lk.LookupFlag & 1), bool(lk.LookupFlag & 8)])
    allnames = {a["name"] for n in order if n in gi for a in gi[n]["anchors"]}
    pairs = []
    if "entry" in allnames and "exit" in allnames:
        pairs.append(("entry", "exit"))
    for a in sorted(allnames):
        if a.startswith("entry.") and "exit." + a[6:] in allnames:
            pairs.append((a, "exit." + a[6:]))
    exp = {}
    onesided = False
    for n in order:
        if n not in gi:
            continue
        first = {}
        for a in gi[n]["anchors"]:
            first.setdefault(a["name"], a)
        for en, xn in pairs:
            e, x = first.get(en), first.get(xn)
            if e is None and x is None:
                continue
            if e is None or x is None:
                onesided = True
            if en.endswith(".LTR"):
                rtl = False
            elif en.endswith(".RTL"):
                rtl = True
            else:
                rtl = not (split and n in ltr_closed)
            exp.setdefault(n, []).append([None if e is None else [R.ot_round(e["x"]), R.ot_round(e["y"])], None if x is None else [R.ot_round(x["x"]), R.ot_round(x["y"])], rtl, True])
    if {k: sorted(v, key=repr) for k, v in recs.items()} != {k: sorted(v, key=repr) for k, v in exp.items()}:
        diff = sorted(k for k in set(recs) | set(exp) if sorted(recs.get(k, []), key=repr) != sorted(exp.get(k, []), key=repr))
        raise Violation("cursive attachment records differ from the entry/exit anchors ([entry, exit, RightToLeft, IgnoreMarks] per glyph)", glyphs=diff,
                        got={k: recs.get(k) for k in diff}, expected={k: exp.get(k) for k in diff}, ltr_closure=sorted(ltr_closed))
    ctx.count("cursive-records", sum(len(v) for v in exp.values()))
    ctx.count("caret-glyphs", len(exp_carets))
    # classification
    rtl_present = any(ud.script_horizontal_direction(ud.script(chr(u)), "LTR") == "RTL" for n in order if n in gi for u in gi[n]["unicodes"] if ud.script(chr(u)) not in ("Zyyy", "Zinh"))
    if split and rtl_present:
        ctx.label("mixed-direction")
    if onesided:
        ctx.label("one-sided-cursive")
    if any(a["name"].count(".") >= 2 for n in order if n in gi for a in gi[n]["anchors"]):
        ctx.label("compound-direction-suffix")
    if cats is not None:
        ctx.label("categories")
    if exp_carets:
        ctx.label("carets")
    caret0 = any(0 in v for v in exp_carets.values())
    if caret0:
        ctx.label("caret-at-zero")
    if "first" in case:
        ctx.label("writer-instances-reused")
    if any(k in spec.get("alts", []) for k in ("n.fina", "o_hyphen_o")):
        ctx.label("substitution-through-neutral-glyph")
    skipped_named = cats is not None and any(n not in order for n in cats)
    ctx.nontrivial((split and rtl_present and onesided) or skipped_named or caret0)


MANIFEST = {
    "technique": "property-based testing (Hypothesis): compiled GDEF/GPOS read back and compared with values recomputed from the UFO data; writer-instance reuse history",
    "text": "Generated category maps, caret and cursive anchors, substitutions and user GDEF blocks; GlyphClassDef, LigCaretList and every EntryExitRecord with its lookup "
    "flags are recomputed from the source (closure of left-to-right glyphs over the generated substitutions) and compared exactly. Counterexample search only.",
    "note": "Trusts fontTools' GDEF/GPOS readers and Unicode script data.",
}
