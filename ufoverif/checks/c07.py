"""C07 - compiling never modifies the caller's sources unless inplace is requested."""
import io

from hypothesis import strategies as st

from ufoverif import family as F, snapshot as SN, spec as S
from ufoverif.runner import Discard, Violation

ID = "C07"
RULE = (
    "case = history of 1-4 compile calls on the same source objects: either one rich UFO (outlines, nested/mixed/mirrored composites, anchors, kerning, "
    "groups, feature text, background layer, glyph libs, lib keys: skipExportGlyphs, openTypeCategories, postscriptNames, lib filters incl. kwargs, lib feature "
    "writers with options, UVS, openTypeMeta, MATH constants; optionally a negative advance or broken feature text so that the call raises) with "
    "compileTTF/compileOTF/compileInterpolatableTTFs/OTFs x option draws, or a 2-4 master designspace (axis maps, sparse layer master, rules, lib, unnamed "
    "sources) with compileInterpolatable*FromDS / compileVariableTTF(s) / compileVariableCFF2(s) x options; oracle = deep typed snapshot of every "
    "layer/glyph/lib/info/kerning/groups/features and of the designspace document (incl. identity of source fonts) before the history == after "
    "every call, whether it returned or raised. Non-trivial = a non-default option was used or the source carries MATH / layers / lib filters / "
    "lib writers. Distinct = case hash."
)
ASSUMPTIONS = [
    "defcon/ufoLib2 object models expose all source state through the attributes the snapshot walks (glyph point pens, libs, info attributes, kerning, groups, features, layers)",
    "inplace=True is never passed (the property exempts it)",
    "inputs that arm the colour-layer filter or request the DottedCircle filter are known-finding classes kept out of the main search (DESIGN.md C07)",
]
N = {"quick": (8, 100), "thorough": (16, 600)}
FLOORS = {"family": 0.15, "font": 0.182, "call-raised": 0.03, "lib-filters": 0.1, "two-or-more-calls": 0.188}  # a third of the measured frequency: a starving generator is a harness error, sampling noise is not

FONT_FUNCS = ["compileTTF", "compileOTF", "compileTTF", "compileOTF", "compileInterpolatableTTFs"]
DS_FUNCS = ["compileInterpolatableTTFsFromDS", "compileInterpolatableOTFsFromDS", "compileVariableTTF", "compileVariableCFF2", "compileVariableTTFs", "compileVariableCFF2s"]


@st.composite
def _opts(draw, fn, names, has_layer, src=None):
    o = {}
    if src is not None:
        # glyphs named by the feature text or by variation sequences cannot be skipped without making the compile fail
        used = src.get("features", "") + repr(src.get("lib", {}).get("public.unicodeVariationSequences", ""))
        names = [n for n in names if n not in used] or names
    ttf = "TTF" in fn
    if F.chance(draw, 1, 3):
        o["removeOverlaps"] = True
        if F.chance(draw, 1, 2):
            o["overlapsBackend"] = draw(st.sampled_from(["booleanOperations", "pathops"]))
    if ttf and F.chance(draw, 1, 3):
        o["flattenComponents"] = True
    if F.chance(draw, 1, 4):
        o["skipExportGlyphs"] = [draw(st.sampled_from(names))]
        if src is not None and F.chance(draw, 1, 2):
            # ... together with a skipped composite helper built from it (or the skipped base of the skipped composite)
            first = o["skipExportGlyphs"][0]
            rel = [g["name"] for g in src["glyphs"] if g["name"] in names and g["name"] != first and (any(c["base"] == first for c in g.get("components", []))
                   or any(c["base"] == g["name"] for h in src["glyphs"] if h["name"] == first for c in h.get("components", [])))]
            if rel:
                o["skipExportGlyphs"].append(draw(st.sampled_from(rel)))
    if F.chance(draw, 1, 4):
        o["useProductionNames"] = draw(st.booleans())
    if F.chance(draw, 1, 4):
        o["featureWriters"] = draw(st.sampled_from([[], ["KernFeatureWriter"], ["MarkFeatureWriter", "..."], ["...", "CursFeatureWriter"], ["GdefFeatureWriter", "CursFeatureWriter"]]))
    if F.chance(draw, 1, 4):
        o["filters"] = draw(st.sampled_from([["..."], ["DecomposeTransformedComponentsFilter", "..."], ["PropagateAnchorsFilter:pre", "..."], ["TransformationsFilter:OffsetX=7", "..."], ["SortContoursFilter"], ["CubicToQuadraticFilter:rememberCurveType=1", "..."]]))
    if F.chance(draw, 1, 5):
        o["debugFeatureFile"] = True
    if fn in ("compileTTF", "compileOTF") and has_layer and F.chance(draw, 1, 5):
        o["layerName"] = "public.background"
    if fn == "compileOTF" and F.chance(draw, 1, 3):
        o["cffVersion"] = draw(st.sampled_from([1, 2]))
        o["optimizeCFF"] = draw(st.sampled_from([0, 1, 2]))
    if fn.startswith("compileVariable") and F.chance(draw, 1, 3):
        o["variableFeatures"] = draw(st.booleans())
    if ttf and F.chance(draw, 1, 5):
        o["reverseDirection"] = False
        if fn == "compileTTF":
            o["rememberCurveType"] = draw(st.booleans())
    return o


# designspace-level font info overrides for the variable font (applied by the post-processor from a temporary font)
VF_INFO = st.fixed_dictionaries({}, optional={"familyName": st.sampled_from(["VF Family", "Variable"]), "styleName": st.sampled_from(["Roman", "Thin"]), "openTypeOS2WeightClass": st.integers(100, 900),
                                              "versionMinor": st.integers(1, 9), "openTypeOS2Selection": st.sampled_from([[7], [8], [7, 8]]), "openTypeNameDesigner": st.sampled_from(["D", "Dé"]),
                                              "openTypeHheaAscender": st.integers(700, 900), "italicAngle": st.sampled_from([0, -9.5])}).filter(bool)


@st.composite
def _case(draw):
    module = draw(st.sampled_from(["ufoLib2", "defcon"]))
    if F.chance(draw, 1, 2):
        spec = draw(F.rich_font())
        names = [g["name"] for g in spec["glyphs"] if g["name"] != ".notdef"]
        bad = draw(st.sampled_from(["", "", "", "", "", "", "", "negwidth", "badfea"]))
        if bad == "negwidth":
            spec["glyphs"][0]["width"] = -10.6
        elif bad == "badfea":
            spec["features"] = spec.get("features", "") + "\nfeature liga { sub nonexistentglyph by %s; } liga;\n" % names[0]
        ops = []
        for _ in range(draw(st.integers(1, 4))):
            fn = draw(st.sampled_from(FONT_FUNCS))
            ops.append({"fn": fn, "opts": draw(_opts(fn, names, bool(spec.get("layers")), spec))})
        case = {"kind": "font", "spec": spec, "module": module, "ops": ops}
        if F.chance(draw, 1, 4):
            # a plain list of 2-3 masters, each with its own public.skipExportGlyphs list (compileInterpolatableTTFs unions them)
            nm = draw(st.integers(2, 3))
            case["master_skip_lists"] = [draw(st.lists(st.sampled_from(names), max_size=2, unique=True)) for _ in range(nm)]
            case["ops"] = [{"fn": "compileInterpolatableTTFs", "opts": draw(_opts("compileInterpolatableTTFs", names, False, spec))} for _ in range(draw(st.integers(1, 2)))]
            for o in case["ops"]:
                o["opts"].pop("skipExportGlyphs", None)
        return case
    fam = draw(F.family(allow_rules=True))
    names = [g["name"] for g in fam["base"]["glyphs"] if g["name"] != ".notdef"]
    if F.chance(draw, 1, 4):
        fam["lib"] = {"public.skipExportGlyphs": [draw(st.sampled_from(names))], "com.example": {"a": [1, 2.0]}}
    if F.chance(draw, 1, 4):
        fam["unnamed_sources"] = True
    if F.chance(draw, 1, 4):
        fam["partial_locations"] = True
    if F.chance(draw, 1, 5):
        fam["explicit_default_layer"] = draw(st.integers(1, len(fam["masters"]) - 1))
    if F.chance(draw, 1, 4):
        fam.setdefault("lib", {})["public.fontInfo"] = draw(VF_INFO)
    ops = []
    for _ in range(draw(st.integers(1, 3))):
        fn = draw(st.sampled_from(DS_FUNCS))
        ops.append({"fn": fn, "opts": draw(_opts(fn, names, False, fam["base"]))})
    if len(fam["masters"][0]["loc"]) == 1 and F.chance(draw, 1, 5):
        # a mixed glyph (own contour + component) used as a component by another composite, with a sparse layer master, and a filter that edits component
        # bases while resolving them through the instantiator's interpolated layers - the first thing run on the glyph sets. (The interpolated layer
        # hands out the source's own glyph object for a glyph with contours; an outline-less one is falsy and gets re-instantiated.)
        tri = [[0, 0, "line"], [90, 0, "line"], [40, 70, "line"]]
        fam["base"]["glyphs"] += [
            {"name": "pA", "width": 500, "unicodes": [], "contours": [tri], "anchors": [{"name": "top", "x": 40, "y": 700}, {"name": "bottom", "x": 40, "y": 0}]},
            {"name": "pin", "width": 500, "unicodes": [], "contours": [[[0, 7, "line"], [-6, 0, "line"], [12, 0, "line"]]], "components": [{"base": "pA", "t": [1, 0, 0, 1, 20, 0]}]},
            {"name": "pout", "width": 500, "unicodes": [], "components": [{"base": "pin", "t": [1, 0, 0, 1, 0, 5]}]},
        ]
        if "glyphOrder" in fam["base"]:
            fam["base"]["glyphOrder"] = list(fam["base"]["glyphOrder"]) + ["pA", "pin", "pout"]
        fam["sparse"] = {"k": 4, "loc": {"Weight": draw(st.sampled_from([300, 600, 850]))}, "names": sorted({"pin"} | set((fam.get("sparse") or {}).get("names", [])))}
        ops[0]["opts"]["filters"] = draw(st.sampled_from([["PropagateAnchorsFilter:pre", "..."], ["PropagateAnchorsFilter:pre"], ["PropagateAnchorsFilter:pre", "..."], ["FlattenComponentsFilter:pre", "..."]]))
        ops[0]["opts"].pop("skipExportGlyphs", None)
    return {"kind": "family", "fam": fam, "module": module, "ops": ops}


def strategy(tier):
    return _case()


def sample_view(case):
    src = case.get("spec") or case["fam"]["base"]
    return {
        "kind": case["kind"],
        "module": case["module"],
        "ops": case["ops"],
        "glyphs": [g["name"] for g in src["glyphs"]],
        "lib_keys": sorted(src.get("lib", {})),
        "masters": [m["loc"] for m in case["fam"]["masters"]] if case["kind"] == "family" else None,
        "sparse": case["fam"].get("sparse") if case["kind"] == "family" else None,
    }


def make_options(opts):
    """turn the JSON description of options into real arguments"""
    import ufo2ft.featureWriters as FW
    import ufo2ft.filters as FL

    kw = {}
    for k, v in opts.items():
        if k == "featureWriters":
            kw[k] = [... if w == "..." else getattr(FW, w)() for w in v]
        elif k == "filters":
            fl = []
            for name in v:
                if name == "...":
                    fl.append(...)
                    continue
                cls, _, arg = name.partition(":")
                klass = FL.getFilterClass(cls[: -len("Filter")] if cls.endswith("Filter") else cls)
                if arg == "pre":
                    fl.append(klass(pre=True))
                elif arg:
                    key, val = arg.split("=")
                    fl.append(klass(**{key: float(val)}))
                else:
                    fl.append(klass())
            kw[k] = fl
        elif k == "debugFeatureFile":
            kw[k] = io.StringIO()
        elif k == "ftConfig":
            # "<name>@option" stands for fontTools' Option constant (what ufo2ft itself and fontmake use as the key), a plain name for the string form
            from fontTools.otlLib.optimize.gpos import COMPRESSION_LEVEL

            kw[k] = {(COMPRESSION_LEVEL if name == COMPRESSION_LEVEL.name + "@option" else name): val for name, val in v.items()}
        else:
            kw[k] = v
    return kw


def arms_known_finding(spec, opts_list=None):
    lib = spec.get("lib", {})
    if "MinConnectorOverlap" in lib.get("com.nagwa.MATHPlugin.constants", {}):
        return "KF-C07-1"
    return None


def snapshot_mask(spec):
    """what the open findings KF-C07-2 (colour layers) and KF-C07-3 (DottedCircle) are known to rewrite in the source; everything else
    must still be unchanged"""
    lib = spec.get("lib", {})
    mask = {}
    if "com.github.googlei18n.ufo2ft.colorPalettes" in lib and "com.github.googlei18n.ufo2ft.colorLayers" not in lib:
        mask["drop_lib_keys"] = ("com.github.googlei18n.ufo2ft.colorLayers",)
        mask["mask_layers"] = tuple(l["name"] for l in spec.get("layers", []) if l["name"].startswith("color"))
    if any("DottedCircle" in f.get("name", "") for f in lib.get("com.github.googlei18n.ufo2ft.filters", [])):
        mask["drop_features"] = True
        mask["drop_category_of"] = "uni25CC"
    return mask


def known_class(case):
    return arms_known_finding(case.get("spec") or case["fam"]["base"])


def run_case(case, ctx):
    import ufo2ft

    if known_class(case) and not case.get("no_exclusions"):
        raise Discard("input class of known finding %s" % known_class(case))
    module = S.ufo_module(case["module"])
    if case["kind"] == "font" and case.get("master_skip_lists"):
        fonts, ds = [], None
        for k, lst in enumerate(case["master_skip_lists"]):
            sp = F.perturb(case["spec"], k, 0.3)
            sp["lib"] = dict(sp.get("lib", {}))
            sp["lib"].pop("public.skipExportGlyphs", None)
            if lst:
                sp["lib"]["public.skipExportGlyphs"] = list(lst)
            fonts.append(S.build(sp, module))
        ctx.label("list-of-masters-with-skip-lists")
    elif case["kind"] == "font":
        spec = case["spec"]
        font = S.build(spec, module)
        fonts, ds = [font], None
    else:
        ds, fonts = F.build_designspace(case["fam"], module)
        if case["fam"].get("unnamed_sources"):
            for s in ds.sources:
                s.name = None
    src0 = case.get("spec") or case["fam"]["base"]
    mask = {} if case.get("no_exclusions") else snapshot_mask(src0)
    if mask:
        ctx.label("known-finding-class-masked(KF-C07-2/3)")
    before = [SN.font_snapshot(f, **mask) for f in fonts]
    before_ds = SN.designspace_snapshot(ds) if ds is not None else None
    raised = 0
    for i, op in enumerate(case["ops"]):
        fn = getattr(ufo2ft, op["fn"])
        try:
            kw = make_options(op["opts"])
        except Exception as e:
            raise Discard("option construction failed: %s" % type(e).__name__)
        if case["kind"] == "font":
            arg = fonts if "Interpolatable" in op["fn"] else fonts[0]
        else:
            arg = ds
        try:
            res = fn(arg, **kw)
            if op["fn"].startswith("compileInterpolatable") and not op["fn"].endswith("FromDS"):
                list(res)
            outcome = "returned"
            ctx.count("returned:" + op["fn"])
        except Exception as e:  # noqa: the property covers calls that raise, too
            outcome = "raised %s" % type(e).__name__
            raised += 1
            ctx.count("raised:%s:%s" % (op["fn"], type(e).__name__))
        after = [SN.font_snapshot(f, **mask) for f in fonts]
        for k, (a, b) in enumerate(zip(before, after)):
            if a != b:
                parts = SN.diff_parts(a, b)
                raise Violation(
                    "source UFO modified by %s" % op["fn"],
                    call_index=i, function=op["fn"], options=op["opts"], outcome=outcome, master=k, changed_parts=parts,
                    detail=describe(a, b, parts[0]),
                )
        if ds is not None:
            after_ds = SN.designspace_snapshot(ds)
            if after_ds != before_ds:
                parts = SN.diff_parts(before_ds, after_ds)
                raise Violation(
                    "designspace document modified by %s" % op["fn"],
                    call_index=i, function=op["fn"], options=op["opts"], outcome=outcome, changed_parts=parts,
                    detail=[repr(before_ds[parts[0]])[:400], repr(after_ds[parts[0]])[:400]],
                )
        ctx.count("calls")
        ctx.label("fn=" + op["fn"])
    src = case.get("spec") or case["fam"]["base"]
    lib = src.get("lib", {})
    ctx.label(case["kind"])
    if any(len(op["opts"].get("skipExportGlyphs", [])) > 1 for op in case["ops"]):
        ctx.label("skipped-composite-of-a-skipped-glyph")
    if case["kind"] == "family" and case["fam"].get("explicit_default_layer") is not None:
        ctx.label("source-naming-its-default-layer")
    if case["kind"] == "family" and case["fam"].get("partial_locations"):
        ctx.label("sources-with-partial-locations")
    if case["kind"] == "family" and "public.fontInfo" in case["fam"].get("lib", {}):
        ctx.label("designspace-fontinfo-override")
    if raised:
        ctx.label("call-raised")
    if len(case["ops"]) >= 2:
        ctx.label("two-or-more-calls")
    if "com.github.googlei18n.ufo2ft.filters" in lib:
        ctx.label("lib-filters")
    if "com.github.googlei18n.ufo2ft.featureWriters" in lib:
        ctx.label("lib-writers")
    if "com.nagwa.MATHPlugin.constants" in lib:
        ctx.label("MATH")
    if src.get("layers"):
        ctx.label("layers")
    if case["kind"] == "family" and case["fam"].get("sparse"):
        ctx.label("sparse-master")
        if any(":pre" in f for op in case["ops"] for f in op["opts"].get("filters", [])):
            ctx.label("sparse-master+pre-filter")
    nondefault = any(op["opts"] for op in case["ops"])
    ctx.nontrivial(nondefault or any(k in lib for k in ("com.nagwa.MATHPlugin.constants", "com.github.googlei18n.ufo2ft.filters", "com.github.googlei18n.ufo2ft.featureWriters")) or bool(src.get("layers")))


def describe(a, b, part):
    x, y = a.get(part), b.get(part)
    if part.startswith("layer:") and x is not None and y is not None:
        gx = {g[0]: g for g in x[3]}
        gy = {g[0]: g for g in y[3]}
        for n in sorted(set(gx) | set(gy)):
            if gx.get(n) != gy.get(n):
                return {"glyph": n, "before": repr(gx.get(n))[:600], "after": repr(gy.get(n))[:600]}
    return {"before": repr(x)[:600], "after": repr(y)[:600]}


MANIFEST = {
    "technique": "property-based stateful testing (Hypothesis-generated call histories) with a before/after deep snapshot oracle",
    "text": "Generated histories of public compile calls with generated options on generated rich sources; after every call, returned or raised, a deep typed "
    "snapshot of all source UFOs (every layer) and of the designspace document must equal the one taken before the history. Counterexample search only.",
    "note": "Trusts the UFO object models to expose all state. inplace=True is never passed. Colour-layer and DottedCircle inputs are known-finding classes.",
}
