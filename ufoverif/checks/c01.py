"""C01 - CFF outlines and advances equal the source with components resolved."""
import io

import math

from hypothesis import strategies as st

from ufoverif import gen, otread, refmodel as R, spec as S
from ufoverif.runner import Discard, Violation, guard

ID = "C01"
RULE = (
    "case = (font of 1-9 glyphs with line/cubic/quadratic, open/closed contours, integer/x.5/fractional/negative/large coordinates, "
    "component DAG of depth <= 4 with offsets, scales, rotations, shears, mirrors) x {ufoLib2, defcon} x roundTolerance {None,0,0.25,0.5} "
    "x cffVersion {1,2} x optimizeCFF {0,1,2}; oracle = independent resolver (hand-composed affine matrices, reversal toggled per "
    "mirrored level) + floor(x+0.5) rounding, compared operator by operator with the charstrings read back from the saved font "
    "(exact under N0 at optimizeCFF=0, under the rendering-preserving N1 normal form at levels 1-2), hmtx advance == round(width). "
    "Non-trivial = the font has a composite glyph and a coordinate with non-zero fractional part. Distinct = distinct case hash."
)
ASSUMPTIONS = [
    "fontTools' Type 2 charstring decoder/drawer reports what the saved bytes contain",
    "resolved coordinates are bounded by +-16000 (16-bit operand range of charstrings and head/bbox fields); larger cases are discarded and counted",
    "control points that exist only through quadratic->cubic elevation may differ by 1 unit (order of elevating and rounding is not fixed by the statement)",
]
N = {"quick": (8, 110), "thorough": (16, 1500)}
FLOORS = {"mirrored-component": 0.071, "nesting>=2": 0.1, "x.5-coordinate": 0.2, "negative-x.5": 0.1, "composite": 0.215}  # a third of the measured frequency: a starving generator is a harness error, sampling noise is not


@st.composite
def _case(draw):
    spec = draw(gen.outline_font(max_glyphs=8))
    names = [g["name"] for g in spec["glyphs"] if g["name"] != ".notdef"]
    extra = {}
    if len(names) >= 2 and draw(st.integers(0, 3)) == 0:
        skip = draw(st.lists(st.sampled_from(names), min_size=1, max_size=len(names) - 1, unique=True))
        extra["skip"] = skip
        extra["skip_via"] = draw(st.sampled_from(["lib", "arg"]))
    if draw(st.integers(0, 3)) == 0:
        extra["lib_filters"] = draw(
            st.lists(
                st.sampled_from(
                    [
                        {"name": "flattenComponents", "pre": True},
                        {"name": "flattenComponents"},
                        {"name": "decomposeComponents", "pre": True},
                        {"name": "propagateAnchors", "pre": True},
                    ]
                ),
                min_size=1,
                max_size=2,
            )
        )
    if draw(st.sampled_from([True, False, False, False])):
        ws = [g.get("width", 0) for g in spec["glyphs"]]
        spec["info"]["postscriptDefaultWidthX"] = draw(st.sampled_from(ws + [0, 500, 499.5]))
        spec["info"]["postscriptNominalWidthX"] = draw(st.sampled_from(ws + [0, 500, 250.5, 300.25]))
    opt = draw(st.sampled_from([0, 0, 1, 2]))
    if opt == 0 and draw(st.integers(0, 3)) == 0:
        # a contour of a single point (a stray point, or a UFO2-style anchor): kept as a bare moveto when the charstrings are not specialised
        # (with optimizeCFF >= 1 the specialiser drops it, so the class is drawn for level 0 only)
        simple = [g for g in spec["glyphs"] if g.get("contours") and not g.get("components")]
        if simple:
            g = draw(st.sampled_from(simple))
            g["contours"] = list(g["contours"]) + [[[draw(st.integers(-200, 800)), draw(st.integers(-200, 800)), "line"]]]
            extra["one_point_contour"] = g["name"]
    return {
        **extra,
        "spec": spec,
        "module": draw(st.sampled_from(["ufoLib2", "defcon"])),
        "tol": draw(st.sampled_from([None, 0.5, 0, 0.25])),
        "cff": draw(st.sampled_from([1, 2])),
        "opt": opt,
    }


def strategy(tier):
    return _case()


def sample_view(case):
    sp = case["spec"]
    return {
        "options": {k: case[k] for k in ("module", "tol", "cff", "opt")},
        "glyphs": [
            {"name": g["name"], "width": g.get("width"), "contours": len(g.get("contours", [])), "components": g.get("components", [])}
            for g in sp["glyphs"]
        ],
        "first_contour": next((g["contours"][0] for g in sp["glyphs"] if g.get("contours")), None),
    }


def _prune_short_lines(ops, thr):
    start, segs = ops
    out, cur = [], start
    for op, pts in segs:
        if op == "line" and abs(pts[0][0] - cur[0]) <= thr and abs(pts[0][1] - cur[1]) <= thr:
            continue
        out.append((op, pts))
        cur = pts[-1]
    return (start, out)


def ops_match(a, b, tol):
    eps = 0 if (tol is None or tol >= 0.5) else tol + 1e-3
    if eps:
        # tolerance mode: a coordinate may move by tol, so which lines are zero-length is not determined; compare modulo
        # line segments shorter than 2*tol and allow the accumulated slack on the remaining points
        thr = 2 * tol + 0.01
        a, b = _prune_short_lines(a, thr), _prune_short_lines(b, thr)
        eps += thr
    (sa, segsa), (sb, segsb) = a, b

    def peq(p, q, slack=0):
        if eps == 0 and slack == 0:
            return R.point_eq(p, q)
        return abs(p[0] - q[0]) <= eps + slack and abs(p[1] - q[1]) <= eps + slack

    if not peq(sa, sb) or len(segsa) != len(segsb):
        return False
    for (opa, pa), (opb, pb) in zip(segsa, segsb):
        if opa != ("curve" if opb == "curve*" else opb):
            return False
        if opb == "curve*":
            if not peq(pa[-1], pb[-1]) or not all(peq(p, q, 1) for p, q in zip(pa[:-1], pb[:-1])):
                return False
        elif not all(peq(p, q) for p, q in zip(pa, pb)):
            return False
    return True


def _area(poly):
    return sum(a[0] * b[1] - b[0] * a[1] for a, b in zip(poly, poly[1:])) / 2


def geo_match(a, b, tol):
    """tolerance mode only: the drawn contour lies within the distance a per-coordinate shift of tol can cause of the expected one, and vice versa,
    with the same orientation when the enclosed area is large enough to have one. (The structural comparison is fragile there: which short lines
    collapse depends on floating-point noise at the pruning threshold.)"""
    from ufoverif import geom

    pa, pb = geom.flatten_cycle((a[0], a[1]), 0.02), geom.flatten_cycle((b[0], b[1]), 0.02)
    d = tol * 1.4143 + 0.06
    # cheap rejection first: the bounding boxes of matching contours agree within d (the perfect-matching search tries many non-matching pairs)
    ba = (min(p[0] for p in pa), min(p[1] for p in pa), max(p[0] for p in pa), max(p[1] for p in pa))
    bb = (min(p[0] for p in pb), min(p[1] for p in pb), max(p[0] for p in pb), max(p[1] for p in pb))
    if any(abs(x - y) > d for x, y in zip(ba, bb)):
        return False
    if not geom.within(pa, pb, d)[0] or not geom.within(pb, pa, d)[0]:
        return False
    per = sum(math.hypot(q[0] - p_[0], q[1] - p_[1]) for p_, q in zip(pb, pb[1:]))
    A, B = _area(pa), _area(pb)
    if min(abs(A), abs(B)) > 2 * d * per + 1 and (A > 0) != (B > 0):
        return False
    return True


def match(n, pred, ordered):
    """None if expected contours 0..n-1 can be matched with the n drawn ones (in order, or as a perfect matching when the
    order is not fixed); else the index of an unmatched expected contour"""
    if all(pred(i, i) for i in range(n)):
        return None
    if ordered:
        return next(i for i in range(n) if not pred(i, i))
    cache = {}

    def ok(i, j):
        if (i, j) not in cache:
            cache[(i, j)] = pred(i, j)
        return cache[(i, j)]

    m = {}

    def augment(i, seen):
        for j in range(n):
            if j in seen or not ok(i, j):
                continue
            seen.add(j)
            if j not in m or augment(m[j], seen):
                m[j] = i
                return True
        return False

    for i in range(n):
        if not augment(i, set()):
            return i
    return None


def classify(spec, ctx):
    gi = R.glyph_index(spec)
    depth = {}

    def d(n):
        if n not in depth:
            depth[n] = 0
            depth[n] = max([1 + d(c["base"]) for c in gi[n].get("components", []) if c["base"] in gi] or [0])
        return depth[n]

    maxd = max(d(g["name"]) for g in spec["glyphs"])
    if maxd >= 1:
        ctx.label("composite")
    if maxd >= 2:
        ctx.label("nesting>=2")
    if any(R.det(c["t"]) < 0 for g in spec["glyphs"] for c in g.get("components", [])):
        ctx.label("mirrored-component")
    frac = half = neghalf = False
    for g in spec["glyphs"]:
        for pts, _ in R.resolve(gi, g["name"]):
            for p in pts:
                for v in p[:2]:
                    f = v - int(v // 1)
                    if f != 0:
                        frac = True
                    if f == 0.5:
                        half = True
                        if v < 0:
                            neghalf = True
    if half:
        ctx.label("x.5-coordinate")
    if neghalf:
        ctx.label("negative-x.5")
    if any(g.get("contours") and g.get("components") for g in spec["glyphs"]):
        ctx.label("mixed-glyph")
    if any(pt[2] == "qcurve" for g in spec["glyphs"] for c in g.get("contours", []) for pt in c):
        ctx.label("quadratic")
    if any(c and c[0][2] == "move" for g in spec["glyphs"] for c in g.get("contours", [])):
        ctx.label("open-contour")
    if any(list(c["t"]) == [1, 0, 0, 1, 0, 0] and gi[c["base"]].get("contours") and gi[c["base"]].get("components") for g in spec["glyphs"] for c in g.get("components", []) if c["base"] in gi):
        ctx.label("identity-reference-to-mixed-glyph")
    if "postscriptNominalWidthX" in spec.get("info", {}):
        ctx.label("explicit-default/nominal-width")
    ctx.nontrivial(maxd >= 1 and frac)


def extent(spec):
    gi = R.glyph_index(spec)
    return max([abs(v) for g in spec["glyphs"] for pts, _ in R.resolve(gi, g["name"]) for p in pts for v in p[:2]] or [0])


def run_case(case, ctx):
    import ufo2ft
    from fontTools.ttLib import TTFont

    spec, tol, ver, opt = case["spec"], case["tol"], case["cff"], case["opt"]
    if extent(spec) > 16000:
        raise Discard("resolved coordinate beyond +-16000")
    skip = set(case.get("skip") or [])
    spec = dict(spec)
    spec["lib"] = dict(spec.get("lib", {}))
    kw = {}
    if skip and case.get("skip_via") == "lib":
        spec["lib"]["public.skipExportGlyphs"] = sorted(skip)
    elif skip:
        kw["skipExportGlyphs"] = sorted(skip)
    if case.get("lib_filters"):
        spec["lib"]["com.github.googlei18n.ufo2ft.filters"] = case["lib_filters"]
        ctx.label("lib-filters")
    f = S.build(spec, S.ufo_module(case["module"]))
    neg = any(R.ot_round(g.get("width", 0)) < 0 for g in spec["glyphs"] if g["name"] not in skip)
    try:
        with guard("compileOTF", allowed=(ValueError,)):
            otf = ufo2ft.compileOTF(f, roundTolerance=tol, cffVersion=ver, optimizeCFF=opt, useProductionNames=False, featureWriters=[], **kw)
            b = io.BytesIO()
            otf.save(b)
    except ValueError as e:
        if "should not be negative" in str(e) and neg:
            ctx.label("negative-advance-rejected")
            return
        raise Violation("unexpected ValueError from compileOTF: %s" % e)
    if neg:
        raise Violation("negative rounded advance accepted")
    t = TTFont(io.BytesIO(b.getvalue()))
    gs = t.getGlyphSet()
    gi = R.glyph_index(spec)
    rounding = tol is None or tol >= 0.5
    def rounder(exact):
        return (lambda p: R.round_point(p, exact)) if rounding else (lambda p: p)

    ordered = not skip   # inlining a skipped base turns it into own contours, which precede the remaining components
    if skip:
        ctx.label("skip-list")
        if any(c["base"] in skip for g in spec["glyphs"] if g["name"] not in skip for c in g.get("components", [])):
            ctx.label("skipped-glyph-used-as-component")
    for g in spec["glyphs"]:
        name = g["name"]
        if name in skip:
            if name in t.getGlyphOrder():
                raise Violation("non-exported glyph present in the font", glyph=name)
            continue
        exp_w = R.ot_round(g.get("width", 0))
        if t["hmtx"][name][0] != exp_w:
            raise Violation("advance width differs", glyph=name, got=t["hmtx"][name][0], source=g.get("width"), expected=exp_w)
        got = otread.draw_cycles(gs, name)
        if ver == 1:
            csw = otread.charstring_width(t, name)
            if csw != exp_w:
                raise Violation("advance encoded in the CFF charstring differs from the rounded source width", glyph=name, got=csw, expected=exp_w)
        exp = []
        for pts, rev, exact in R.resolve_ex(gi, name):
            c = R.to_cubics(R.cycle(pts))
            if rev:
                c = R.reverse_cycle(c)
            exp.append((R.map_cycle(c, rounder(exact)), rev))
        if opt == 0:
            if len(got) != len(exp):
                raise Violation("number of contours differs", glyph=name, got=len(got), expected=len(exp))
            def cbox(cyc):
                pts = [cyc[0]] + [p for _, ps in cyc[1] for p in ps]
                return (min(p[0] for p in pts), min(p[1] for p in pts), max(p[0] for p in pts), max(p[1] for p in pts))

            gboxes = [cbox((gc[0], gc[1])) for gc in got]
            eboxes = [cbox(R.oplist(e_[0])) for e_ in exp]
            slack = (tol or 0) + 1.01

            def pred(i, j):
                # control-point boxes of matching contours agree within the rounding slack: rejects most wrong pairs of the matching search at once
                if any(abs(x - y) > slack for x, y in zip(eboxes[i], gboxes[j])):
                    return False
                ecr, rev = exp[i]
                gc = got[j]
                cands = R.rotations(ecr) if rev else [ecr]
                if any(ops_match(R.strip_tail((gc[0], gc[1])), R.strip_tail(R.oplist(cd)), tol) for cd in cands):
                    return True
                if not rounding and tol and geo_match((gc[0], gc[1]), R.oplist(ecr), tol):
                    ctx.count("tolerance-mode-contours-matched-geometrically")
                    return True
                return False

            bad = match(len(exp), pred, ordered)
            if bad is not None:
                raise Violation("outline differs from resolved+rounded source", glyph=name, contour=bad, reversed=exp[bad][1], got=got[bad] if ordered else got, expected=exp[bad][0], tol=tol)
            ctx.count("contours-compared-exact", len(got))
            if not rounding and tol is not None:
                # tolerance mode, structure-independent clause: every stored coordinate is a source coordinate, kept as it is (up to the 16.16 encoding) or moved
                # onto an integer at most `tol` away. Only for outlines without quadratic segments (their cubic control points are derived, not source points).
                res = list(R.resolve_ex(gi, name))
                if not any(p[2] == "qcurve" or (p[2] is None and any(q[2] == "qcurve" for q in pts_)) for pts_, _, _ in res for p in pts_):
                    import bisect

                    for axis in (0, 1):
                        src_vals = sorted({float(p[axis]) for pts_, _, _ in res for p in pts_})
                        for gc in got:
                            for v in [gc[0][axis]] + [q[axis] for _, qs in gc[1] for q in qs]:
                                k = bisect.bisect_left(src_vals, v)
                                near = min((abs(v - src_vals[j]) for j in (k - 1, k) if 0 <= j < len(src_vals)), default=None)
                                if near is None:
                                    continue
                                if near > tol + 2e-3 or (near > 2e-3 and abs(v - round(v)) > 2e-3):
                                    raise Violation("a stored coordinate is neither a source coordinate nor an integer within the rounding tolerance of one", glyph=name, axis="xy"[axis],
                                                    stored=v, distance_to_nearest_source_coordinate=near, tol=tol, unitsPerEm=spec["info"].get("unitsPerEm"))
                    ctx.count("tolerance-mode-glyphs-checked-coordinate-wise")
        else:
            if not rounding:
                ctx.label("tolerance-with-optimizer(advance only)")
                continue
            ng = [x for x in (R.n1((gc[0], gc[1])) for gc in got) if x]
            ne = []
            if any(isinstance(p, R.P) and not p.strict for ec, _ in exp for p in [ec[0]] + [q for _, pts in ec[1] for q in pts]):
                ctx.label("n1-skipped(rounding boundary under inexact arithmetic)")
                continue
            for ecr, rev in exp:
                x = R.n1((ecr[0], ecr[1]))
                if x:
                    ne.append(x)
            if len(ng) != len(ne) or match(len(ne), lambda i, j: R.n1_equal(ng[j], ne[i], 1), ordered) is not None:
                raise Violation("outline differs under N1 (specialised charstrings)", glyph=name, got=ng, expected=ne)
            ctx.count("contours-compared-n1", len(ng))
    classify(spec, ctx)
    ctx.label("opt=%d" % opt)
    ctx.label("cff%d" % ver)
    ctx.label("tol=%s" % tol)
    if case.get("one_point_contour"):
        ctx.label("one-point-contour")


MANIFEST = {
    "technique": "property-based testing (Hypothesis) against an independent outline resolver / rounding reference model",
    "text": "Generated search over fonts, component graphs, transforms and compile options; every glyph of the saved and reloaded CFF/CFF2 font is "
    "drawn and compared operator-by-operator with a reference computed from the source by code that shares nothing with ufo2ft or the fontTools "
    "pens it uses. Counterexample search only; bounded by font size (<= 9 glyphs, depth <= 4).",
    "note": "Trusts fontTools' charstring reader. Resolved coordinates limited to +-16000. optimizeCFF>=1 compared under the N1 normal form "
    "(merging of collinear axis-aligned lines, removal of zero-length segments) which preserves rendering.",
}
