"""C04 - compiled fonts are serialisable and their derived fields are consistent."""
import io
import itertools
import math

from hypothesis import strategies as st

from ufoverif import gen, otread, refmodel as R, spec as S
from ufoverif.checks.c01 import extent
from ufoverif.checks.c02 import maxp_from_glyf
from ufoverif.runner import Discard, Violation, guard

ID = "C04"
RULE = (
    "case = font (outlines as C01 incl. empty glyphs, component-only glyphs, composites that render nothing; advance sequences enumerated "
    "exhaustively over {0,500,600}^<=5 plus random ones; heights / verticalOrigin / vhea metrics on or off; BMP, supplementary-only or no code points) x "
    "{TTF, CFF, CFF2} x {ufoLib2, defcon}; oracle = (1) save -> reload -> save byte-identical and every table recompiles to its bytes after full "
    "decompilation, (2) derived fields recomputed from the reloaded glyph data and cmap: glyph boxes, hmtx/vmtx bearings, head bbox, hhea/vhea max advance, "
    "min bearings, max extent, minimal long-metric count, VORG default/records, maxp, post names, OS/2 first/last char index - checked on the saved font "
    "AND on the in-memory font returned by the compiler (fontTools recomputes several of them on save, which would hide a wrong value computed by ufo2ft). "
    "Non-trivial = >= 2 distinct advances with a trailing run of equal ones, or vertical metrics on. Distinct = case hash."
)
ASSUMPTIONS = [
    "fontTools' table decompilers report what the saved bytes contain; glyf boxes are control-point boxes (TrueType convention), CFF boxes are curve extrema",
    "composites that render nothing: ufo2ft ignores them (OpenType: glyphs without contours are ignored), fontTools' save-time recalculation counts them; both conventions are accepted for hhea/vhea bearings/extents of such fonts",
    "resolved coordinates bounded by +-16000",
]
N = {"quick": (8, 250), "thorough": (16, 1200)}
FLOORS = {"vertical": 0.112, "trailing-equal-advances": 0.097, "composite": 0.249, "supplementary-only": 0.03, "no-unicodes": 0.03}  # a third of the measured frequency: a starving generator is a harness error, sampling noise is not

CPS = [0x41, 0x61, 0x20, 0x1F600, 0x20000, 0xFFFF, 0x10000, 0x3042, 0xE000, 0x0]


@st.composite
def _case(draw):
    spec = draw(gen.outline_font(max_glyphs=7))
    for g in spec["glyphs"]:
        g["width"] = abs(g.get("width", 0))
    mode = draw(st.sampled_from(["mixed", "mixed", "mixed", "supp", "none", "bmp"]))
    pool = {"mixed": CPS, "supp": [c for c in CPS if c > 0xFFFF], "none": [], "bmp": [c for c in CPS if c <= 0xFFFF]}[mode]
    cps = draw(st.lists(st.sampled_from(pool), unique=True, max_size=6)) if pool else []
    for i, g in enumerate(spec["glyphs"]):
        g["unicodes"] = [cps[i]] if i < len(cps) and g["name"] != ".notdef" else []
    if draw(st.booleans()):  # trailing run of equal advances
        w = draw(st.sampled_from([0, 500, 600]))
        k = draw(st.integers(1, len(spec["glyphs"])))
        for g in sorted(spec["glyphs"], key=lambda g: g["name"])[-k:]:
            g["width"] = w
    # domain: no glyph whose whole outline collapses to a single point (boxes of zero extent are 'empty' for ufo2ft, a point for
    # fontTools, and such paths are dropped altogether by the CFF subroutinisers) - replaced by construction, counted if it still occurs
    gi = R.glyph_index(spec)
    for g in spec["glyphs"]:
        g["contours"] = [c if not point_contour(c) else [[0, 0, "line"], [40, 0, "line"], [20, 30, "line"]] for c in g.get("contours", [])]
    if draw(st.integers(0, 4)) == 0:
        # no outline touches the origin: every simple glyph is shifted into the open upper-right quadrant (the synthesised .notdef starts at x=50),
        # so the font bounding box does not contain (0, 0) on the left / bottom side
        dx, dy = draw(st.sampled_from([45, 120.5])), draw(st.sampled_from([0, 30]))
        for g in spec["glyphs"]:
            if g.get("contours") and not g.get("components"):
                mx = min(p[0] for c in g["contours"] for p in c)
                my = min(p[1] for c in g["contours"] for p in c)
                g["contours"] = [[[p[0] - mx + dx, p[1] - my + dy, p[2]] for p in c] for c in g["contours"]]
        spec["glyphs"] = [g for g in spec["glyphs"] if not g.get("components")]
        spec["_positive"] = True
    if draw(st.integers(0, 5)) == 0:
        # a stored glyph order that repeats a name
        nm = [g["name"] for g in spec["glyphs"]]
        spec["glyphOrder"] = list(draw(st.permutations(nm))) + [draw(st.sampled_from(nm))]
    vertical = draw(st.booleans())
    if vertical:
        spec["info"].update({"openTypeVheaVertTypoAscender": 500, "openTypeVheaVertTypoDescender": -500, "openTypeVheaVertTypoLineGap": 0})
        for g in spec["glyphs"]:
            g["height"] = draw(st.sampled_from([1000, 1000, 900, 0, 1000.5]))
            if draw(st.sampled_from([True, False, False])):
                g["verticalOrigin"] = draw(st.sampled_from([880, 880, 800, 750.5, 0, 0.4]))
    flavour = draw(st.sampled_from(["ttf", "cff", "cff2"]))
    positive = spec.pop("_positive", False)
    if flavour == "ttf" and draw(st.integers(0, 5)) == 0:
        # TrueType only: a glyph whose points all coincide away from the origin - its box is a point, not "empty" (the CFF side of this is outside the domain, see ASSUMPTIONS)
        px, py = draw(st.sampled_from([(-30, 50), (120, 0), (0, -7)]))
        spec["glyphs"].append({"name": "dotpt", "width": 300, "unicodes": [], "contours": [[[px, py, "line"], [px, py, "line"], [px, py, "line"]]]})
    case = {"spec": spec, "module": draw(st.sampled_from(["ufoLib2", "defcon"])), "flavour": flavour}
    if positive:
        case["positive"] = True
    if flavour != "ttf":
        case["tol"] = draw(st.sampled_from([None, None, 0, 0.25]))
        case["opt"] = draw(st.sampled_from([0, 1, 2]))
    return case


def point_contour(c, t=R.IDENT):
    pts = [(R.ot_round(q[0]), R.ot_round(q[1])) for q in (R.apply(t, (p[0], p[1])) for p in c)]
    return len(set(pts)) <= 1


def any_point_contour(gi, name):
    return any(len({(R.ot_round(p[0]), R.ot_round(p[1])) for p in c}) <= 1 for c, _ in R.resolve(gi, name))


def zero_extent(gi, name):
    pts = [p for c, _ in R.resolve(gi, name) for p in c]
    if not pts:
        return False
    xs = [R.ot_round(p[0]) for p in pts]
    ys = [R.ot_round(p[1]) for p in pts]
    return min(xs) == max(xs) and min(ys) == max(ys)


def strategy(tier):
    return _case()


def enumerate_cases(tier):
    maxlen = 5 if tier == "thorough" else 3
    i = 0
    for n in range(1, maxlen + 1):
        for seq in itertools.product([0, 500, 600], repeat=n):
            i += 1
            glyphs = []
            for j, w in enumerate(seq):
                g = {"name": "g%d" % j, "width": w, "unicodes": [0x61 + j]}
                if (i + j) % 3 == 0:
                    g["contours"] = [[[10 + j, 0, "line"], [90, 0, "line"], [50, 80 + j, "line"]]]
                elif (i + j) % 3 == 1 and j > 0:
                    g["components"] = [{"base": "g%d" % (j - 1), "t": [1, 0, 0, 1, 5, 0]}]
                glyphs.append(g)
            vertical = bool(i & 1)
            info = {"unitsPerEm": 1000}
            if vertical:
                info.update({"openTypeVheaVertTypoAscender": 500, "openTypeVheaVertTypoDescender": -500, "openTypeVheaVertTypoLineGap": 0})
                for j, g in enumerate(glyphs):
                    g["height"] = seq[(j + 1) % n] + 400
            yield {"spec": {"info": info, "glyphs": glyphs}, "module": "ufoLib2" if i & 2 else "defcon", "flavour": ["ttf", "cff", "cff2"][i % 3]}


EXHAUSTIVE_SLICE = True


def sample_view(case):
    return {"module": case["module"], "flavour": case["flavour"], "info": case["spec"]["info"],
            "glyphs": [[g["name"], g.get("width"), g.get("height"), g.get("verticalOrigin"), g.get("unicodes"), len(g.get("contours", [])), len(g.get("components", []))] for g in case["spec"]["glyphs"]]}


# ------------------------------------------------------------------ recomputation
def _cubic_extrema(p0, p1, p2, p3):
    out = []
    for k in (0, 1):
        a, b, c, d = p0[k], p1[k], p2[k], p3[k]
        # derivative: 3[(b-a)(1-t)^2 + 2(c-b)t(1-t) + (d-c)t^2]
        qa = (d - c) - 2 * (c - b) + (b - a)
        qb = 2 * ((c - b) - (b - a))
        qc = b - a
        ts = []
        if abs(qa) < 1e-12:
            if abs(qb) > 1e-12:
                ts.append(-qc / qb)
        else:
            disc = qb * qb - 4 * qa * qc
            if disc >= 0:
                r = math.sqrt(disc)
                ts += [(-qb + r) / (2 * qa), (-qb - r) / (2 * qa)]
        for t in ts:
            if 0 < t < 1:
                mt = 1 - t
                out.append((k, mt ** 3 * a + 3 * mt * mt * t * b + 3 * mt * t * t * c + t ** 3 * d))
    return out


def cff_box(cycles):
    """exact bounds of drawn contours (lines + cubics), floats; None when nothing is drawn"""
    xs, ys = [], []
    for c in cycles:
        cur = c[0]
        xs.append(cur[0])
        ys.append(cur[1])
        for op, pts in c[1]:
            xs.append(pts[-1][0])
            ys.append(pts[-1][1])
            if op.startswith("curve"):
                for k, v in _cubic_extrema(cur, pts[0], pts[1], pts[2]):
                    (xs if k == 0 else ys).append(v)
            cur = pts[-1]
    if not xs:
        return None
    return (min(xs), min(ys), max(xs), max(ys))


def tt_box(glyf, name, depth=0):
    """control-point box of a glyf glyph, composites resolved recursively with rounding of transformed points; None if no points"""
    g = glyf[name]
    if g.isComposite():
        pts = tt_points(glyf, name)
        if not pts:
            return None
        xs = [p[0] for p in pts]
        ys = [p[1] for p in pts]
        return (min(xs), min(ys), max(xs), max(ys))
    if g.numberOfContours <= 0:
        return None
    xs = [x for x, y in g.coordinates]
    ys = [y for x, y in g.coordinates]
    return (min(xs), min(ys), max(xs), max(ys))


def tt_points(glyf, name, depth=0):
    g = glyf[name]
    if depth > 16:
        raise Violation("component cycle in glyf", glyph=name)
    if g.isComposite():
        out = []
        for c in g.components:
            sub = tt_points(glyf, c.glyphName, depth + 1)
            if hasattr(c, "transform"):
                (a, b), (cc, d) = c.transform
                sub = [(a * x + cc * y, b * x + d * y) for x, y in sub]
            out += [(x + c.x, y + c.y) for x, y in sub]
        return out
    if g.numberOfContours <= 0:
        return []
    return [(x, y) for x, y in g.coordinates]


def min_long_metrics(advances):
    n = len(advances)
    while n > 1 and advances[n - 2] == advances[n - 1]:
        n -= 1
    return max(n, 1) if advances else 0


NOISY = set()


def expected_fields(t, spec, flavour, tol=None, noise=2e-3):
    NOISY.clear()
    """derived fields recomputed from glyph data / cmap of TTFont t (the reloaded font)"""
    order = t.getGlyphOrder()
    boxes = {}
    exact = {}
    if flavour == "ttf":
        glyf = t["glyf"]
        for n in order:
            b = tt_box(glyf, n)
            exact[n] = not glyf[n].isComposite()
            boxes[n] = None if b is None else tuple(b)
    else:
        gs = t.getGlyphSet()
        for n in order:
            b = cff_box(otread.draw_cycles(gs, n))
            # curve extrema may be fractional: ufo2ft rounds them (otRound), fontTools' save-time recalculation floors/ceils;
            # both enclose-or-round conventions are accepted, i.e. an integer within 1 of the exact extremum
            exact[n] = b is None or all(float(v).is_integer() for v in b)
            boxes[n] = ufo_box(b, tol)
            # with a rounding tolerance < 0.5 coordinates are stored as 16.16 fixed-point operands: a bound that is an integer up to that
            # encoding error may be floored or not - such glyphs get the lenient clause
            if tol is not None and tol < 0.5 and b is not None and any(abs(v - round(v)) < noise for v in b):
                NOISY.add(n)
            # an extremum that lies on a rounding boundary up to floating-point error (685.4999999999998 here, 685.5 in fontTools' solver) may round either way
            if b is not None and any(abs((v % 1) - 0.5) < 1e-6 for v in b):
                NOISY.add(n)
        # ... and so may a bearing: with a source extremum exactly on a half (a component offset of 0.5 under a rotation, thorough run seed 7) the stored
        # bound is round(x) while the bearing is round(origin - x) - both correctly rounded from the exact value, one unit apart
        try:
            gi_src = R.glyph_index(spec)
            for n in order:
                if n in gi_src and n not in NOISY:
                    if any(abs((p_[k_] % 1) - 0.5) < 1e-6 for pts_, _ in R.resolve(gi_src, n) for p_ in pts_ for k_ in (0, 1)):
                        NOISY.add(n)
        except Exception:
            pass
    return order, boxes, exact


def ufo_box(b, tol):
    """the integer box ufo2ft documents for CFF glyphs: round when within the rounding tolerance, else floor the minima / ceil the maxima"""
    if b is None:
        return None
    t = 0.5 if tol is None else tol

    def to_int(v, f):
        r = R.ot_round(v)
        return r if (t >= 0.5 or abs(r - v) <= t) else int(f(v))

    return (to_int(b[0], math.floor), to_int(b[1], math.floor), to_int(b[2], math.ceil), to_int(b[3], math.ceil))


def close(a, b, tol):
    return a is not None and b is not None and all(abs(x - y) <= tol for x, y in zip(a, b))


def check_font(t, order, boxes, exact, spec, flavour, where, has_empty_composite):
    gi = R.glyph_index(spec)
    hmtx = t["hmtx"]
    tol1 = 0 if (flavour == "ttf" or all(exact.values())) else 1   # single bound
    tol2 = 2 * tol1                                                   # difference / sum of two bounds
    # boxes as stored / side bearings
    stored = {}
    for n in order:
        if flavour == "ttf":
            g = t["glyf"][n]
            sb = None
            if g.numberOfContours != 0 and hasattr(g, "xMin"):
                sb = (g.xMin, g.yMin, g.xMax, g.yMax)
            if boxes[n] is None and g.isComposite():
                # composite that renders nothing: its stored box is fontTools' convention (a point at the component offset)
                boxes[n] = sb if sb not in (None, (0, 0, 0, 0)) else None
            elif boxes[n] is not None or sb not in (None, (0, 0, 0, 0)):
                tol = 0 if exact[n] else 1
                alt = None
                if g.isComposite() and boxes[n] is not None and has_empty_composite:
                    # a component that is itself a composite rendering nothing carries fontTools' conventional box (see above); fontTools' composite
                    # fast path unions it, shifted by the component offset, into the parent's box
                    alt = list(boxes[n])
                    for c in g.components:
                        cg = t["glyf"][c.glyphName]
                        if cg.isComposite() and hasattr(cg, "xMin") and not any(True for _ in R.resolve(gi, c.glyphName)):
                            alt = [min(alt[0], cg.xMin + c.x), min(alt[1], cg.yMin + c.y), max(alt[2], cg.xMax + c.x), max(alt[3], cg.yMax + c.y)]
                    alt = tuple(alt)
                if alt is not None and sb is not None and alt != tuple(boxes[n]) and close(sb, alt, tol):
                    boxes[n] = sb
                elif boxes[n] is None or sb is None or not close(sb, boxes[n], tol):
                    raise Violation("glyf bounding box does not match the glyph's points (%s)" % where, glyph=n, stored=sb, recomputed=boxes[n])
                if not exact[n]:
                    boxes[n] = sb  # rounding of transformed component points is fontTools' convention: keep the stored box
        stored[n] = boxes[n]
    adv = [hmtx[n][0] for n in order]
    for n in order:
        if n in gi and hmtx[n][0] != R.ot_round(gi[n].get("width", 0)):
            raise Violation("hmtx does not decode to the rounded source advance (%s)" % where, glyph=n, got=hmtx[n][0], source=gi[n].get("width", 0))
        if flavour == "cff" and where == "saved font":
            csw = otread.charstring_width(t, n)
            if csw != hmtx[n][0]:
                raise Violation("advance carried by the CFF charstring differs from hmtx", glyph=n, charstring=csw, hmtx=hmtx[n][0])
        lsb = hmtx[n][1]
        exp = stored[n][0] if stored[n] else 0
        if lsb != exp and not (n in NOISY and abs(lsb - exp) <= 1):
            raise Violation("left side bearing differs from the outline's xMin (%s)" % where, glyph=n, lsb=lsb, xMin=exp)
    withbox = [n for n in order if stored[n]]
    head = t["head"]
    if withbox:
        fb = (min(stored[n][0] for n in withbox), min(stored[n][1] for n in withbox), max(stored[n][2] for n in withbox), max(stored[n][3] for n in withbox))
    else:
        fb = (0, 0, 0, 0)
    hb = (head.xMin, head.yMin, head.xMax, head.yMax)
    fb0 = (min(fb[0], 0), min(fb[1], 0), max(fb[2], 0), max(fb[3], 0))  # with a (0,0,0,0) box of a composite that renders nothing
    if not close(hb, fb, tol1) and not (has_empty_composite and close(hb, fb0, tol1)):
        raise Violation("head bounding box is not the union of the glyph boxes (%s)" % where, head=[head.xMin, head.yMin, head.xMax, head.yMax], expected=list(fb))

    def hv(tag, mtx, advs, first, extent_of, names):
        tb = t[tag]
        H = tag == "hhea"
        fields = {
            ("advanceWidthMax" if H else "advanceHeightMax"): max(advs) if advs else 0,
            ("minLeftSideBearing" if H else "minTopSideBearing"): min([first[n] for n in names] or [0]),
            ("minRightSideBearing" if H else "minBottomSideBearing"): min([a - first[n] - extent_of[n] for n, a in zip(order, advs) if n in names] or [0]),
            ("xMaxExtent" if H else "yMaxExtent"): max([first[n] + extent_of[n] for n in names] or [0]),
            ("numberOfHMetrics" if H else "numberOfVMetrics"): min_long_metrics(advs),
        }
        for k, v in fields.items():
            got = getattr(tb, k)
            if abs(got - v) > (0 if k.startswith(("numberOf", "advance")) else tol2):
                if has_empty_composite and not k.startswith("numberOf") and not k.startswith("advance"):
                    continue  # convention clash on composites that render nothing (see ASSUMPTIONS)
                raise Violation("%s.%s does not match the metrics / glyph data (%s)" % (tag, k, where), got=got, expected=v)

    # OS/2.xAvgCharWidth (version >= 3): the rounded mean of the non-zero advances the metrics table stores
    nz = [a for a in adv if a > 0]
    avg = R.ot_round(sum(nz) / len(nz)) if nz else 0
    if t["OS/2"].xAvgCharWidth != avg:
        raise Violation("OS/2.xAvgCharWidth is not the mean of the non-zero stored advances (%s)" % where, got=t["OS/2"].xAvgCharWidth, expected=avg)
    hv("hhea", hmtx, adv, {n: hmtx[n][1] for n in order}, {n: (stored[n][2] - stored[n][0]) if stored[n] else 0 for n in order}, withbox)
    if "vmtx" in t:
        vmtx = t["vmtx"]
        typo = t["OS/2"].sTypoAscender
        vadv = [vmtx[n][0] for n in order]
        origin = {}
        for n in order:
            g = gi.get(n)
            vo = g.get("verticalOrigin") if g else None
            origin[n] = R.ot_round(vo) if vo is not None else typo
            h = R.ot_round(g.get("height", 0)) if g else None
            if g is not None and vmtx[n][0] != h:
                raise Violation("vertical advance differs from the rounded source height (%s)" % where, glyph=n, got=vmtx[n][0], expected=h)
            tsb = origin[n] - (stored[n][3] if stored[n] else 0)
            if g is not None and vmtx[n][1] != tsb and not (n in NOISY and abs(vmtx[n][1] - tsb) <= 1):
                raise Violation("top side bearing differs from verticalOrigin - yMax (%s)" % where, glyph=n, got=vmtx[n][1], expected=tsb)
        hv("vhea", vmtx, vadv, {n: vmtx[n][1] for n in order}, {n: (stored[n][3] - stored[n][1]) if stored[n] else 0 for n in order}, withbox)
        if "VORG" in t:
            vorg = t["VORG"]
            import collections

            cnt = collections.Counter(origin[n] for n in order if n in gi)
            # .notdef synthesised by ufo2ft has no source entry; its origin is the typo ascender fallback
            for n in order:
                if n not in gi:
                    cnt[typo] += 1
                    origin[n] = typo
            best = max(cnt.values())
            if cnt[vorg.defaultVertOriginY] != best:
                raise Violation("VORG default is not a most frequent vertical origin (%s)" % where, default=vorg.defaultVertOriginY, histogram=dict(cnt))
            exp = {n: origin[n] for n in order if origin[n] != vorg.defaultVertOriginY}
            if dict(vorg.VOriginRecords) != exp:
                raise Violation("VORG records are not exactly the glyphs whose origin differs from the default (%s)" % where, got=dict(vorg.VOriginRecords), expected=exp)
    if flavour == "ttf":
        exp = maxp_from_glyf(t["glyf"], order)
        exp["numGlyphs"] = len(order)
        for k, v in exp.items():
            if getattr(t["maxp"], k) != v:
                raise Violation("maxp.%s does not match the glyph data (%s)" % (k, where), got=getattr(t["maxp"], k), expected=v)
    elif t["maxp"].numGlyphs != len(order):
        raise Violation("maxp.numGlyphs does not match (%s)" % where, got=t["maxp"].numGlyphs, expected=len(order))
    cps = sorted({u for g in spec["glyphs"] for u in g.get("unicodes", [])})
    first = min(cps[0], 0xFFFF) if cps else 0xFFFF
    last = min(cps[-1], 0xFFFF) if cps else 0xFFFF
    os2 = t["OS/2"]
    if (os2.usFirstCharIndex, os2.usLastCharIndex) != (first, last):
        raise Violation("OS/2 first/last character index does not match the character map (%s)" % where, got=[os2.usFirstCharIndex, os2.usLastCharIndex], expected=[first, last])


def memory_expected(t, order, boxes, tag, attr):
    """header field recomputed from the per-glyph boxes in ufo2ft's convention (glyphs without a box are ignored)"""
    withbox = [n for n in order if boxes[n]]
    if tag == "head":
        if not withbox:
            return 0
        i = {"xMin": 0, "yMin": 1, "xMax": 2, "yMax": 3}[attr]
        f = min if i < 2 else max
        return f(boxes[n][i] for n in withbox)
    if tag == "hhea":
        mtx = t["hmtx"]
        lo, hi = 0, 2
    else:
        if "vmtx" not in t:
            return None
        mtx = t["vmtx"]
        lo, hi = 1, 3
    ext = {n: boxes[n][hi] - boxes[n][lo] for n in withbox}
    if attr in ("minLeftSideBearing", "minTopSideBearing"):
        return min([mtx[n][1] for n in withbox] or [0])
    if attr in ("minRightSideBearing", "minBottomSideBearing"):
        return min([mtx[n][0] - mtx[n][1] - ext[n] for n in withbox] or [0])
    if attr in ("xMaxExtent", "yMaxExtent"):
        return max([mtx[n][1] + ext[n] for n in withbox] or [0])
    return None


def run_case(case, ctx):
    import ufo2ft
    from fontTools.ttLib import TTFont

    spec, flavour = case["spec"], case["flavour"]
    if extent(spec) > 16000:
        raise Discard("resolved coordinate beyond +-16000")
    gi0 = R.glyph_index(spec)
    if any(any_point_contour(gi0, g["name"]) for g in spec["glyphs"] if not (flavour == "ttf" and g["name"] == "dotpt")):
        raise Discard("contour that collapses to a single point")
    f = S.build(spec, S.ufo_module(case["module"]))
    kw = {"cffVersion": 2} if flavour == "cff2" else {}
    tolr = case.get("tol")
    if flavour != "ttf" and tolr is not None:
        kw["roundTolerance"] = tolr
    if flavour != "ttf" and case.get("opt") is not None:
        kw["optimizeCFF"] = case["opt"]
    # subroutinising reloads the font: its header fields are then fontTools' recalculation, not ufo2ft's own values
    own_values = flavour == "ttf" or case.get("opt") in (0, 1)
    with guard("compile"):
        mem = (ufo2ft.compileTTF if flavour == "ttf" else ufo2ft.compileOTF)(f, useProductionNames=False, featureWriters=[], **kw)
    # snapshot the in-memory derived fields before saving (saving recalculates some of them in place)
    import copy

    memfields = {}
    for tag, attrs in {
        "hhea": ["advanceWidthMax", "minLeftSideBearing", "minRightSideBearing", "xMaxExtent", "numberOfHMetrics"],
        "vhea": ["advanceHeightMax", "minTopSideBearing", "minBottomSideBearing", "yMaxExtent", "numberOfVMetrics"],
        "head": ["xMin", "yMin", "xMax", "yMax"],
        "maxp": ["numGlyphs", "maxPoints", "maxContours", "maxCompositePoints", "maxCompositeContours", "maxComponentElements", "maxComponentDepth"],
        "OS/2": ["usFirstCharIndex", "usLastCharIndex"],
    }.items():
        if tag in mem:
            for a in attrs:
                if hasattr(mem[tag], a):
                    memfields[(tag, a)] = getattr(mem[tag], a)
    mem_hmtx = dict(mem["hmtx"].metrics)
    mem_vmtx = dict(mem["vmtx"].metrics) if "vmtx" in mem else None
    mem_vorg = (mem["VORG"].defaultVertOriginY, dict(mem["VORG"].VOriginRecords)) if "VORG" in mem else None
    with guard("save"):
        b = io.BytesIO()
        mem.save(b)
    data = b.getvalue()
    t2 = TTFont(io.BytesIO(data))
    b2 = io.BytesIO()
    t2.save(b2)
    if b2.getvalue() != data:
        raise Violation("save -> reload -> save does not reproduce the bytes")
    # per-table recompilation after full decompilation
    t4 = TTFont(io.BytesIO(data))
    for tag in t4.keys():
        if tag != "GlyphOrder":
            t4[tag]
    b4 = io.BytesIO()
    t4.save(b4)
    t5 = TTFont(io.BytesIO(b4.getvalue()))
    t3 = TTFont(io.BytesIO(data))
    for tag in t3.reader.keys() if case.get("tol") in (None, 0.5) else []:  # fractional charstring operands do not round-trip through decompilation
        x, y = t5.reader[tag], t3.reader[tag]
        if tag == "head":
            x = x[:8] + b"\0" * 4 + x[12:]
            y = y[:8] + b"\0" * 4 + y[12:]
        if x != y:
            raise Violation("table %s does not recompile to the same bytes after decompilation" % tag)
    gi = R.glyph_index(spec)
    # subroutinising goes through cffsubr's tx, which re-encodes fractional operands with two decimals
    # (after subroutinising, cffsubr's tx has re-encoded the relative operands with two decimals: absolute positions drift, every bound is lenient)
    order, boxes, exact = expected_fields(t3, spec, flavour, case.get("tol"), noise=1.0 if case.get("opt") == 2 else 2e-3)
    for n in order:
        if boxes[n] is not None and boxes[n][0] == boxes[n][2] and boxes[n][1] == boxes[n][3] and not (flavour == "ttf" and n == "dotpt"):
            raise Discard("compiled glyph whose outline collapses to a single point")
    has_empty_composite = any(g.get("components") and not g.get("contours") and not any(True for _ in R.resolve(gi, g["name"])) for g in spec["glyphs"])
    # post / CFF names: the reloaded glyph order (read from post format 2, or the CFF charset) is the source's glyph set
    expnames = sorted({g["name"] for g in spec["glyphs"]} | {".notdef"})
    if flavour != "cff2" and sorted(order) != expnames:
        raise Violation("glyph names stored in the font differ from the source glyph set", got=sorted(order), expected=expnames)
    check_font(t3, order, dict(boxes), exact, spec, flavour, "saved font", has_empty_composite)
    # the in-memory font: same derived fields as the saved one
    for (tag, a), v in memfields.items():
        v2 = getattr(t3[tag], a)
        fractional = flavour != "ttf" and not all(exact.values())
        if fractional and tag in ("hhea", "vhea", "head") and not a.startswith(("numberOf", "advance")):
            # the saved value is fontTools' floor/ceil recalculation; the in-memory one must follow ufo2ft's documented convention exactly
            exp_mem = memory_expected(t3, order, boxes, tag, a)
            if own_values and exp_mem is not None and v != exp_mem and not has_empty_composite and not NOISY:
                raise Violation("derived field of the in-memory font does not follow the documented bounding-box rounding", field="%s.%s" % (tag, a), in_memory=v, expected=exp_mem, roundTolerance=case.get("tol"))
            if abs(v - v2) <= 2:
                continue
        if v != v2:
            if has_empty_composite and tag in ("hhea", "vhea", "head") and not a.startswith(("numberOf", "advance")):
                ctx.label("empty-rendering-composite(convention clash accepted)")
                continue
            raise Violation("derived field of the in-memory font differs from the saved font", field="%s.%s" % (tag, a), in_memory=v, saved=v2)
    if {k: tuple(v) for k, v in mem_hmtx.items()} != {k: tuple(v) for k, v in t3["hmtx"].metrics.items()}:
        raise Violation("hmtx of the in-memory font differs from the saved font")
    if mem_vmtx is not None and {k: tuple(v) for k, v in mem_vmtx.items()} != {k: tuple(v) for k, v in t3["vmtx"].metrics.items()}:
        raise Violation("vmtx of the in-memory font differs from the saved font")
    if mem_vorg is not None and mem_vorg != (t3["VORG"].defaultVertOriginY, dict(t3["VORG"].VOriginRecords)):
        raise Violation("VORG of the in-memory font differs from the saved font")
    # classification
    adv = [t3["hmtx"][n][0] for n in order]
    ctx.label(flavour)
    if flavour == "ttf" and any(g["name"] == "dotpt" for g in spec["glyphs"]):
        ctx.label("ttf-glyph-that-is-a-single-point-off-the-origin")
    if case.get("positive"):
        ctx.label("no-outline-touches-the-origin")
    if spec.get("glyphOrder") and len(set(spec["glyphOrder"])) != len(spec["glyphOrder"]):
        ctx.label("stored-order-repeats-a-name")
    if case.get("tol") is not None:
        ctx.label("roundTolerance=%s" % case["tol"])
    if "vmtx" in t3:
        ctx.label("vertical")
    if len(set(adv)) >= 2 and len(adv) >= 2 and adv[-1] == adv[-2]:
        ctx.label("trailing-equal-advances")
    if any(g.get("components") for g in spec["glyphs"]):
        ctx.label("composite")
    cps = [u for g in spec["glyphs"] for u in g.get("unicodes", [])]
    if cps and min(cps) > 0xFFFF:
        ctx.label("supplementary-only")
    if not cps:
        ctx.label("no-unicodes")
    if has_empty_composite:
        ctx.label("empty-rendering-composite")
    ctx.nontrivial((len(set(adv)) >= 2 and len(adv) >= 2 and adv[-1] == adv[-2]) or "vmtx" in t3)


MANIFEST = {
    "technique": "property-based testing (Hypothesis) + exhaustive enumeration of advance sequences; round-trip oracle and recomputation of derived fields from glyph data, on the saved and the in-memory font",
    "text": "Generated fonts (and all advance sequences up to length 5 over {0,500,600}) are compiled; bytes must round-trip and every table recompile identically; "
    "bearings, boxes, header extremes, long-metric counts, VORG, maxp and OS/2 char indices are recomputed from the reloaded glyph data and compared with the "
    "saved tables and with the fields ufo2ft precomputed in memory. Counterexample search only.",
    "note": "Trusts fontTools' readers. Fonts with composites that render nothing get both bearing conventions accepted.",
}
