"""C14 - filters touch only what they are asked to and report what they changed."""
import copy

from hypothesis import strategies as st

from ufoverif import family as F, gen, refmodel as R, snapshot as SN, spec as S
from ufoverif.runner import Discard, Violation, guard

ID = "C14"
RULE = (
    "case = (font with component DAG, anchors, closed line/cubic contours; a second font of the same structure with different coordinates and different "
    "capHeight/xHeight) x filter in {CubicToQuadratic, DecomposeComponents, DecomposeTransformedComponents, FlattenComponents, PropagateAnchors, "
    "RemoveOverlaps (both backends), ReverseContourDirection, SortContours, Transformations (with Origin), SkipExportGlyphs, DottedCircle (font with or without a U+25CC glyph)} or interpolatable variant "
    "(Decompose, DecomposeTransformed, Flatten, PropagateAnchors, SkipExportGlyphs IFilters on both fonts as masters) x include list (also empty) / exclude "
    "list / all x {copied glyph set, in place} x {ufoLib2, defcon}; history = the same filter object is run on font A, then on font B; oracle = glyph "
    "snapshots before/after: (1) only included glyphs, glyphs reachable from them as components and the filter's declared targets change, (2) every changed / "
    "added / removed glyph is in the returned set, (3) with a separate glyph set the source font snapshot is unchanged, (4) the run on B with the reused "
    "object equals the run of a fresh object on an equal B (result and returned set), (5) an interpolatable filter gives each master the result the plain "
    "filter gives that master alone (flatten / decompose / propagate), (6) interpolatable filters also run with an Instantiator on two three-master families whose sparse "
    "middle masters hold different glyphs: reused object == fresh object, and every changed/added glyph is reported. Name lists are passed as list, tuple, set or one-shot iterator. Non-trivial = the include spec selects a strict non-empty subset and some glyph "
    "changed. Distinct = case hash."
)
ASSUMPTIONS = [
    "booleanOperations rejects open and quadratic contours (documented UnsupportedContourError): generator uses closed line/cubic contours; filter exceptions of documented types are counted, not violations",
    "ExplodeColorLayerGlyphs, and DottedCircle on fonts with public.openTypeCategories or a GDEF table in the features, write to the source font (lib, feature text, colour layers): the open C07 findings KF-C07-2/3; "
    "this generator runs DottedCircle only on fonts without either, where its effect is confined to the glyph set",
]
N = {"quick": (8, 120), "thorough": (16, 1200)}
FLOORS = {"include-strict-subset": 0.087, "include-empty-list": 0.02, "interpolatable": 0.048, "some-glyph-changed": 0.197}  # a third of the measured frequency: a starving generator is a harness error, sampling noise is not

PLAIN = ["cu2qu", "decompose", "decomposeT", "flatten", "propagate", "overlap", "overlap-skia", "reverse", "sort", "transform", "skip", "dotted"]
INTERP = ["decompose", "decomposeT", "flatten", "propagate", "skip"]


@st.composite
def _case(draw):
    spec = draw(gen.outline_font(max_glyphs=6, kinds=("line", "curve"), allow_open=False, notdef=False))
    names = [g["name"] for g in spec["glyphs"]]
    if draw(st.booleans()) and names:
        # composites whose nested component is not the last one, chains of depth 3
        base = names[0]
        spec["glyphs"].append({"name": "n1", "width": 400, "unicodes": [], "components": [{"base": base, "t": draw(gen.transform())}]})
        spec["glyphs"].append({"name": "n2", "width": 400, "unicodes": [], "components": [{"base": "n1", "t": draw(gen.transform())}, {"base": base, "t": [1, 0, 0, 1, 20, 0]}]})
        if draw(st.booleans()):
            spec["glyphs"].append({"name": "n3", "width": 400, "unicodes": [], "components": [{"base": "n2", "t": [1, 0, 0, 1, 0, 10]}]})
    names = [g["name"] for g in spec["glyphs"]]
    for i, g in enumerate(spec["glyphs"]):
        g["width"] = abs(g.get("width", 0))
        g["height"] = draw(st.sampled_from([0, 0, 1000, 880]))
        ks = draw(st.lists(st.sampled_from(["top", "_top", "bottom"]), unique=True, max_size=2))
        g["anchors"] = [{"name": k, "x": 10.5 * i, "y": draw(st.integers(0, 800))} for k in ks]
    spec["info"].update({"capHeight": 700, "xHeight": 500})
    interp = draw(st.sampled_from([False, False, False, True]))
    which = draw(st.sampled_from(INTERP if interp else PLAIN + ["dotted"]))
    fopts = {}
    if which == "transform":
        fopts = {"OffsetX": draw(st.sampled_from([0, 10])), "ScaleY": draw(st.sampled_from([100, 120])), "Slant": draw(st.sampled_from([0, 5])), "Origin": draw(st.integers(0, 4))}
        if fopts == {"OffsetX": 0, "ScaleY": 100, "Slant": 0, "Origin": fopts["Origin"]}:
            fopts["OffsetX"] = 7
        if draw(st.booleans()) and "space" not in names:
            # an empty glyph (no outline, no anchors) with a vertical advance: only its metrics can change
            spec["glyphs"].append({"name": "space", "width": 250, "height": draw(st.sampled_from([1000, 880])), "unicodes": [], "contours": [], "anchors": []})
            names.append("space")
    elif which == "cu2qu":
        fopts = {"reverseDirection": draw(st.booleans())}
        if draw(st.booleans()):
            # glyphs without any cubic segment: nothing to convert, but their contours are still reversed
            spec["glyphs"].append({"name": "box", "width": 500, "height": 0, "unicodes": [], "contours": [[[0, 0, "line"], [200, 0, "line"], [200, 300, "line"], [0, 300, "line"]]], "anchors": []})
            spec["glyphs"].append({"name": "quad", "width": 500, "height": 0, "unicodes": [], "contours": [[[0, 0, "line"], [100, 0, None], [200, 100, "qcurve"], [0, 200, "line"]]], "anchors": []})
            names += ["box", "quad"]
        if draw(st.booleans()):
            fopts["rememberCurveType"] = draw(st.booleans())
    elif which == "skip":
        fopts = {"skipExportGlyphs": draw(st.lists(st.sampled_from(names), unique=True, min_size=1, max_size=2))}
    elif which == "dotted":
        # no categories in the lib and no GDEF table in the features: the filter's documented effect is then confined to the glyph set
        # (with either, it also rewrites lib / feature text - the C07 finding KF-C07-3, outside this generator)
        fopts = {"margin": draw(st.sampled_from([80, 40])), "dots": draw(st.sampled_from([12, 8]))}
        if draw(st.booleans()):
            g = draw(st.sampled_from([h for h in spec["glyphs"] if h.get("contours")] or spec["glyphs"]))
            g["unicodes"] = [0x25CC]
            g["width"] = g["width"] or 500
            if draw(st.booleans()) and len(spec["glyphs"]) >= 3:
                # the existing dotted circle lacks an anchor that marks attach to: the filter has to add it (to the glyph set's glyph)
                others = [h for h in spec["glyphs"] if h is not g]
                g["anchors"] = [a for a in g["anchors"] if a["name"] != "top"]
                others[0]["anchors"] = [a for a in others[0]["anchors"] if a["name"] != "_top"] + [{"name": "_top", "x": 3, "y": 400}]
                others[1]["anchors"] = [a for a in others[1]["anchors"] if a["name"] != "top"] + [{"name": "top", "x": 120, "y": 650}]
                others[1]["width"] = others[1]["width"] or 480
    if which == "propagate" and interp and any(g["name"] == "n2" for g in spec["glyphs"]) and draw(st.booleans()):
        # anchor-less composites inside composites: the inner ones receive their anchors while the outermost one is processed
        for g in spec["glyphs"]:
            if g["name"] in ("n1", "n2"):
                g["anchors"] = []
        if not any(a["name"] in ("top", "bottom") for a in spec["glyphs"][0]["anchors"]):
            spec["glyphs"][0]["anchors"] = spec["glyphs"][0]["anchors"] + [{"name": "top", "x": 40, "y": 600}]
    inst = None
    if interp and which in ("decompose", "decomposeT", "skip") and not any(g["name"] == "n2" for g in spec["glyphs"]) and names and draw(st.booleans()):
        spec["glyphs"].append({"name": "n1", "width": 400, "height": 0, "unicodes": [], "anchors": [], "components": [{"base": names[0], "t": [1, 0, 0, 1, 20, 0]}]})
        spec["glyphs"].append({"name": "n2", "width": 400, "height": 0, "unicodes": [], "anchors": [], "components": [{"base": "n1", "t": [1, 0, 0, 1, 0, 30]}]})
        names += ["n1", "n2"]
    if interp and draw(st.sampled_from([True, True, False])):
        # the filter also runs with an Instantiator over two families that differ in what their sparse middle master holds
        pool = [n for n in names if n not in fopts.get("skipExportGlyphs", [])] or names
        inst0 = {"sub1": sorted(draw(st.lists(st.sampled_from(pool), unique=True, min_size=1, max_size=2))), "sub2": sorted(draw(st.lists(st.sampled_from(pool), unique=True, min_size=1, max_size=2)))}
        inst = inst0
        if any(g["name"] == "n2" for g in spec["glyphs"]) and len(pool) >= 2 and draw(st.sampled_from([True, True, False])):
            # the innermost base of the nested composites is redefined by one family's sparse master only
            b0 = spec["glyphs"][0]["name"]
            other = [n for n in pool if n != b0 and not n.startswith("n")] or [n for n in pool if n != b0]
            pair = [sorted(set(inst["sub1"]) | {b0}), [other[0]]]
            inst = dict(zip(("sub1", "sub2"), pair if draw(st.sampled_from([True, True, True, False])) else pair[::-1]))
    incmode = draw(st.sampled_from(["all", "include", "include", "exclude"])) if which not in ("skip", "dotted") else "all"
    incnames = draw(st.lists(st.sampled_from(names), unique=True, min_size=0 if incmode == "include" else 1, max_size=3)) if incmode != "all" else []
    return {
        "spec": spec,
        "second": {"k": 1, "amp": draw(st.sampled_from([0.3, 1.0])), "capHeight": draw(st.sampled_from([700, 640, 760])), "xHeight": draw(st.sampled_from([500, 470]))},
        "module": draw(st.sampled_from(["ufoLib2", "defcon"])),
        "filter": which,
        "fopts": fopts,
        "interpolatable": interp,
        "incmode": incmode,
        "incnames": incnames,
        "inplace": draw(st.sampled_from([False, False, True])),
        "sparse_last": draw(st.booleans()),
        "inc_container": draw(st.sampled_from(["list", "list", "tuple", "set", "iter"])),
        "inst": inst,
        "glyphset": draw(st.sampled_from(["_GlyphSet", "_GlyphSet", "dict"])),   # the filter API takes any mapping of glyph names to glyphs
    }


def strategy(tier):
    return _case()


def sample_view(case):
    return {k: case[k] for k in ("module", "filter", "fopts", "interpolatable", "incmode", "incnames", "inplace", "second")} | {
        "glyphs": [[g["name"], len(g.get("contours", [])), [c["base"] for c in g.get("components", [])]] for g in case["spec"]["glyphs"]]}


def make_filter(case):
    from ufo2ft import filters as FL

    which, kw = case["filter"], dict(case["fopts"])
    if case["incmode"] == "include":
        kw["include"] = list(case["incnames"])
    elif case["incmode"] == "exclude":
        kw["exclude"] = list(case["incnames"])
    plain = {
        "cu2qu": FL.CubicToQuadraticFilter, "decompose": FL.DecomposeComponentsFilter, "decomposeT": FL.DecomposeTransformedComponentsFilter,
        "flatten": FL.FlattenComponentsFilter, "propagate": FL.PropagateAnchorsFilter, "overlap": FL.RemoveOverlapsFilter, "overlap-skia": FL.RemoveOverlapsFilter,
        "reverse": FL.ReverseContourDirectionFilter, "sort": FL.SortContoursFilter, "transform": FL.TransformationsFilter, "skip": FL.SkipExportGlyphsFilter,
        "dotted": FL.DottedCircleFilter,
    }[which]
    if which == "overlap-skia":
        kw["backend"] = "pathops"
    cls = plain.getInterpolatableFilterClass() if case["interpolatable"] else plain
    if cls is None:
        raise Discard("no interpolatable variant")
    # the name lists are accepted as any iterable: list, tuple, set or a one-shot iterator
    kind = case.get("inc_container", "list")
    kwc = {k: ({"list": list, "tuple": tuple, "set": set, "iter": iter}[kind](v) if k in ("include", "exclude") else v) for k, v in kw.items()}
    return cls(**kwc), plain, kw


def second_spec(case):
    sp = F.perturb(case["spec"], case["second"]["k"], case["second"]["amp"], False)
    sp["info"] = dict(sp["info"], capHeight=case["second"]["capHeight"], xHeight=case["second"]["xHeight"])
    return sp


def reach(gi, roots):
    seen = set(roots)
    todo = list(roots)
    while todo:
        n = todo.pop()
        for c in gi[n]["components"]:
            if c["base"] in gi and c["base"] not in seen:
                seen.add(c["base"])
                todo.append(c["base"])
    return seen


GS_KIND = ["_GlyphSet"]


def glyphset_of(font, inplace):
    from ufo2ft.util import _GlyphSet

    gs = _GlyphSet.from_layer(font, copy=not inplace)
    return dict(gs) if GS_KIND[0] == "dict" else gs


def index(gs):
    return R.glyph_index(SN.glyphset_to_spec(gs))


ALLOWED_EXC = None


def allowed_exc():
    global ALLOWED_EXC
    if ALLOWED_EXC is None:
        from booleanOperations.exceptions import BooleanOperationsError
        from fontTools.cu2qu.errors import Error as Cu2QuError

        excs = [BooleanOperationsError, Cu2QuError]
        try:
            from pathops import PathOpsError

            excs.append(PathOpsError)
        except Exception:
            pass
        ALLOWED_EXC = tuple(excs)
    return ALLOWED_EXC


def run_plain(flt, font, inplace):
    gs = glyphset_of(font, inplace)
    before = index(gs)
    fb = SN.font_snapshot(font)
    try:
        with guard("filter call", allowed=allowed_exc()):
            mod = flt(font, gs)
    except allowed_exc() as e:
        raise Discard("filter rejected the outlines: %s" % type(e).__name__)
    after = index(gs)
    return before, after, set(mod), fb == SN.font_snapshot(font)


def run_interp(flt, fonts, inplace):
    gss = [glyphset_of(f, inplace) for f in fonts]
    before = [index(g) for g in gss]
    fb = [SN.font_snapshot(f) for f in fonts]
    with guard("interpolatable filter call", allowed=allowed_exc()):
        mod = flt(fonts, gss)
    after = [index(g) for g in gss]
    return before, after, set(mod), fb == [SN.font_snapshot(f) for f in fonts]


def check_scope(case, before, after, mod, names_all):
    which = case["filter"]
    names = list(before)
    if case["incmode"] == "include":
        included = set(case["incnames"]) & set(names)
    elif case["incmode"] == "exclude":
        included = set(names) - set(case["incnames"])
    else:
        included = set(names)
    targets = set(case["fopts"].get("skipExportGlyphs", [])) if which == "skip" else set()
    if which == "dotted":
        # the one glyph the filter is about: the existing U+25CC glyph, or the uni25CC it draws
        allowed_dc = {n for n, g in before.items() if 0x25CC in g.get("unicodes", [])} | {"uni25CC"}
        changed = {n for n in set(after) | set(before) if after.get(n) != before.get(n)}
        if not changed <= allowed_dc:
            raise Violation("DottedCircle filter changed glyphs other than the dotted circle", outside=sorted(changed - allowed_dc))
        targets = allowed_dc
        included = set()
    allowed = reach(before, included) | targets
    changed = {n for n in set(after) | set(before) if after.get(n) != before.get(n)}
    if not changed <= allowed:
        raise Violation("filter changed glyphs that are neither included nor referenced by an included glyph", filter=which, include=case["incmode"], names=case["incnames"], outside=sorted(changed - allowed))
    if not changed <= mod:
        raise Violation("changed / added / removed glyphs missing from the returned set", filter=which, missing=sorted(changed - mod), returned=sorted(mod))
    return changed, included


def approx_equal(a, b, eps=1e-6):
    """structural equality with floats compared up to eps (the two filter variants compose nested offsets in a different order of additions)"""
    if isinstance(a, (int, float)) and isinstance(b, (int, float)) and not isinstance(a, bool) and not isinstance(b, bool):
        return abs(a - b) <= eps * max(1.0, abs(a), abs(b))
    if isinstance(a, dict) and isinstance(b, dict):
        return a.keys() == b.keys() and all(approx_equal(a[k], b[k], eps) for k in a)
    if isinstance(a, (list, tuple)) and isinstance(b, (list, tuple)):
        return len(a) == len(b) and all(approx_equal(x, y, eps) for x, y in zip(a, b))
    return a == b


def filter_state(flt):
    """canonical value of every attribute of the filter object except the per-call 'context' (callables by identity)"""
    out = {}
    for k, v in vars(flt).items():
        if k == "context":
            continue
        out[k] = ("callable", id(v)) if callable(v) else SN.freeze(copy.deepcopy(v))
    return out


def run_case(case, ctx):
    module = S.ufo_module(case["module"])
    GS_KIND[0] = case.get("glyphset", "_GlyphSet")
    if GS_KIND[0] == "dict":
        ctx.label("plain-dict-glyph-set")
    specA, specB = case["spec"], second_spec(case)
    flt, plain_cls, kw = make_filter(case)
    inplace = case["inplace"]
    state0 = filter_state(flt)
    if not case["interpolatable"]:
        A = S.build(specA, module)
        before, after, mod, font_same = run_plain(flt, A, inplace)
        if not inplace and not font_same:
            raise Violation("source font changed although a separate glyph set was given", filter=case["filter"])
        changed, included = check_scope(case, before, after, mod, None)
        # history: same object on a different font, compared with a fresh object on an equal font
        B1, B2 = S.build(specB, module), S.build(specB, module)
        try:
            b1, a1, m1, _ = run_plain(flt, B1, inplace)
        except Discard:
            raise
        fresh, _, _ = make_filter(case)
        b2, a2, m2, _ = run_plain(fresh, B2, inplace)
        if a1 != a2 or m1 != m2:
            diff = sorted(n for n in set(a1) | set(a2) if a1.get(n) != a2.get(n))
            raise Violation("a reused filter object gives a different result than a fresh one", filter=case["filter"], fopts=case["fopts"], glyphs_differing=diff, returned_reused=sorted(m1), returned_fresh=sorted(m2))
        # and back on an equal copy of A: same as the first run
        A2 = S.build(specA, module)
        b3, a3, m3, _ = run_plain(flt, A2, inplace)
        if a3 != after or m3 != mod:
            raise Violation("third invocation of the same filter object differs from its first invocation on an equal font", filter=case["filter"])
        ctx.count("invocations", 4)
    else:
        fonts = [S.build(specA, module), S.build(specB, module)]
        if case["filter"] == "skip" and case.get("sparse_last"):
            # a sparse last master: only the simple glyphs that are not skipped
            keep = [g for g in specB["glyphs"] if not g.get("components") and g["name"] not in case["fopts"]["skipExportGlyphs"]][:2]
            if keep:
                fonts.append(S.build(dict(specB, glyphs=copy.deepcopy(keep)), module))
                ctx.label("sparse-last-master")
        before, after, mod, font_same = run_interp(flt, fonts, inplace)
        if not inplace and not font_same:
            raise Violation("source fonts changed although separate glyph sets were given", filter=case["filter"])
        changed = set()
        for b, a in zip(before, after):
            c, included = check_scope(case, b, a, mod, None)
            changed |= c
        # (5) per-master agreement with the plain filter
        if case["filter"] in ("flatten", "decompose", "propagate", "skip") or (case["filter"] == "decomposeT"):
            for i, sp in enumerate((specA, specB)):
                if case["filter"] == "decomposeT":
                    break  # joint decision: a glyph transformed in one master is decomposed in all
                single = plain_cls(**kw)
                f1 = S.build(sp, module)
                b1, a1, m1, _ = run_plain(single, f1, False)
                # mixed glyphs (own contours + components) are left out: the two variants differ in whether they look inside them,
                # and the statement does not say which is right
                mixed = {n for n, g in before[i].items() if g["contours"] and g["components"]}
                diff = sorted(n for n in set(a1) | set(after[i]) if not approx_equal(a1.get(n), after[i].get(n)) and n not in mixed)
                if diff:
                    raise Violation("interpolatable filter result for a master differs from the plain filter applied to that master", filter=case["filter"], master=i, glyphs_differing=diff)
        # reuse on swapped masters vs fresh
        fonts2 = [S.build(specB, module), S.build(specA, module)]
        fonts3 = [S.build(specB, module), S.build(specA, module)]
        b1, a1, m1, _ = run_interp(flt, fonts2, inplace)
        fresh, _, _ = make_filter(case)
        b2, a2, m2, _ = run_interp(fresh, fonts3, inplace)
        if a1 != a2 or m1 != m2:
            raise Violation("a reused interpolatable filter object gives a different result than a fresh one", filter=case["filter"])
        ctx.count("invocations", 3)
        ctx.label("interpolatable")
        if case.get("inst"):
            from ufo2ft.instantiator import Instantiator

            specM = F.perturb(case["spec"], 2, case["second"]["amp"], False)

            def family_run(f, subset):
                fonts_ = [S.build(specA, module), S.build(dict(specM, glyphs=copy.deepcopy([g for g in specM["glyphs"] if g["name"] in subset])), module), S.build(specB, module)]
                gss = [glyphset_of(f_, False) for f_ in fonts_]
                bef = [index(g) for g in gss]
                instantiator = Instantiator({"Weight": (0, 0, 1000)}, [({"Weight": w}, g) for w, g in zip((0, 500, 1000), gss)])
                try:
                    m = set(f(fonts_, gss, instantiator))
                except Exception as e:  # compared, not judged: the reused and the fresh object have to fail alike
                    return bef, "exc:" + type(e).__name__, set()
                return bef, [index(g) for g in gss], m

            _, r1, m1 = family_run(flt, case["inst"]["sub1"])
            _, r2, m2 = family_run(flt, case["inst"]["sub2"])
            fresh2, _, _ = make_filter(case)
            bef3, r3, m3 = family_run(fresh2, case["inst"]["sub2"])
            if r2 != r3 or m2 != m3:
                raise Violation("an interpolatable filter object reused on a second family (with an Instantiator) gives a different result than a fresh one", filter=case["filter"],
                                sparse_first=case["inst"]["sub1"], sparse_second=case["inst"]["sub2"], returned_reused=sorted(m2), returned_fresh=sorted(m3),
                                glyphs_per_master_reused=[sorted(x) for x in r2] if isinstance(r2, list) else r2, glyphs_per_master_fresh=[sorted(x) for x in r3] if isinstance(r3, list) else r3)
            if isinstance(r3, list):
                unreported = sorted({n for b_, a_ in zip(bef3, r3) for n in set(b_) | set(a_) if b_.get(n) != a_.get(n)} - m3)
                if unreported:
                    raise Violation("changed / added / removed glyphs missing from the returned set (run with an Instantiator)", filter=case["filter"], missing=unreported, returned=sorted(m3))
                ctx.label("interpolatable-with-instantiator")
                if any(len(a_) > len(b_) for b_, a_ in zip(bef3, r3)):
                    ctx.label("glyph-added-to-sparse-master")
            else:
                ctx.label("interpolatable-with-instantiator-raised")
            ctx.count("invocations", 3)
    state1 = filter_state(flt)
    if state0 != state1:
        raise Violation("filter object carries state between invocations (attributes other than 'context' changed)", before=repr(state0)[:300], after=repr(state1)[:300])
    names = list(before if not case["interpolatable"] else before[0])
    strict = case["incmode"] != "all" and 0 < len(included) < len(names)
    if strict:
        ctx.label("include-strict-subset")
    if case["incmode"] == "include" and not case["incnames"]:
        ctx.label("include-empty-list")
    if changed:
        ctx.label("some-glyph-changed")
    ctx.label("filter=" + case["filter"])
    if inplace:
        ctx.label("in-place")
    ctx.nontrivial(strict and bool(changed))


MANIFEST = {
    "technique": "property-based stateful testing (Hypothesis): generated (filter, include spec, font) cases and invocation histories of one filter object, snapshot oracle + fresh-object differential",
    "text": "Generated fonts, filters and include/exclude specifications; glyph snapshots before/after decide scope and reporting; the same filter object is invoked "
    "on a second, different font and on an equal copy of the first and compared with fresh objects; interpolatable variants are compared with the plain filter "
    "per master. Counterexample search only.",
    "note": "The colour-layer filter, and DottedCircle on fonts with categories / a GDEF feature table, are excluded (they write to the source font, see the C07 findings KF-C07-2/3). Documented outline rejections are discarded and counted.",
}
