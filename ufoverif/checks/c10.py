"""C10 - a variable font reproduces each master at that master's location."""
import io
import math

from hypothesis import strategies as st

from ufoverif import family as F, gen, geom, otl, otread, refmodel as R, spec as S
from ufoverif.checks import c02
from ufoverif.checks.c01 import extent
from ufoverif.runner import Discard, Violation, guard

ID = "C10"
RULE = (
    "case = compatible master family (2-3 masters on a weight axis, optionally with an axis map or a second axis with four corner masters; cubic/line outlines, composites "
    "incl. one whose later component has a 2x2 differing between masters; per-master kerning with group pairs, exceptions and pairs missing in some masters; base/mark anchors "
    "moving per master; optional sparse layer master; optional two-variable-font designspace whose second font uses a non-prefix subset of the sources) x "
    "{compileVariableTTF(s), compileVariableCFF2(s)} x variableFeatures on/off; oracle = at the location of every full master: outlines of the variable font vs the "
    "interpolatable master compiled with the same options (threshold distance with the provable rounding bound; same point structure for TrueType), advances within the bound, "
    "kerning read from the instantiated GPOS == that master's UFO kerning with fallback semantics (exact with two masters per axis, +-1 with intermediate masters), mark "
    "attachment == that master's rounded anchor difference. Non-trivial = a kerning pair is absent from a non-default master and excepts a group pair, or an intermediate "
    "master exists, or variableFeatures=False. Distinct = case hash."
)
ASSUMPTIONS = [
    "fontTools varLib / instancer / getGlyphSet(location) are trusted to evaluate the variation data",
    "master locations map to integer user coordinates (feaLib writes variable-scalar locations as integers)",
    "kerning exceptions of one family are all on the same side (glyph-group or group-glyph): crossing exceptions defined in different masters cannot be represented by per-entry variable values (DESIGN.md C10)",
    "families whose closing-point coincidence differs between masters are excluded by construction (P20)",
]
N = {"quick": (8, 45), "thorough": (16, 300)}
FLOORS = {"ttf": 0.262, "cff2": 0.088, "variableFeatures=False": 0.1, "intermediate-master": 0.15, "kerning-pair-missing-in-a-master": 0.149}  # a third of the measured frequency: a starving generator is a harness error, sampling noise is not

LAT = ["a", "b", "c", "d", "e", "f"]


@st.composite
def _case(draw):
    spec = draw(gen.outline_font(max_glyphs=5, kinds=("line", "curve"), allow_open=False, notdef=True).filter(lambda s: len(s["glyphs"]) >= 4))
    for i, g in enumerate(spec["glyphs"]):
        g["width"] = abs(g.get("width", 0))
        g["unicodes"] = [0x61 + i] if g["name"] != ".notdef" else []
    lat = [g["name"] for g in spec["glyphs"] if g["name"] != ".notdef"]
    simple = [g["name"] for g in spec["glyphs"] if g.get("contours") and not g.get("components") and g["name"] != ".notdef"]
    if len(simple) >= 2 and draw(st.booleans()):
        spec["glyphs"].append({"name": "multi", "width": 600, "unicodes": [0x7A], "components": [{"base": simple[0], "t": [1, 0, 0, 1, 0, 0]}, {"base": simple[1], "t": [1, 0, 0, 1, 200, 0]}, {"base": simple[0], "t": [1, 0, 0, 1, 400, 10]}]})
    # anchors: bases carry 'top', one mark glyph carries '_top'
    spec["glyphs"].append({"name": "acutecomb", "width": 0, "unicodes": [0x301], "contours": [[[0, 500, "line"], [40, 500, "line"], [20, 560, "line"]]], "anchors": [{"name": "_top", "x": 20, "y": 500}]})
    for g in spec["glyphs"]:
        if g["name"] in lat and draw(st.booleans()):
            g["anchors"] = [{"name": "top", "x": draw(st.integers(50, 400)), "y": draw(st.integers(400, 800))}]
    spec["lib"] = {"public.openTypeCategories": {n: "base" for n in lat} | {"acutecomb": "mark"}}
    spec["features"] = "languagesystem DFLT dflt;\nlanguagesystem latn dflt;\n"
    spec["groups"] = {"public.kern1.g": lat[:2], "public.kern2.g": lat[-2:]}
    val = st.one_of(st.integers(-90, 90), st.integers(-90, 90), st.sampled_from([-37.6, 12.4, -20.5, 33.5, 8.75]))  # UFO kerning values may be fractional; the font stores them rounded
    # the group pair is never zero in any master (jitter is at most 18), so every master has a GPOS table to merge when variableFeatures=False
    kerning = [["public.kern1.g", "public.kern2.g", draw(st.one_of(st.integers(25, 90), st.integers(-90, -25)))]]
    side = draw(st.sampled_from(["glyph-group", "group-glyph"]))
    zero_exc = draw(st.integers(0, 4)) == 0
    if zero_exc:
        # a one-sided exception that is 0 in every master over the non-zero class pair (checked with variable features)
        kerning.append([lat[0], "public.kern2.g", 0] if side == "glyph-group" else ["public.kern1.g", lat[-1], 0])
    elif draw(st.booleans()):
        kerning.append([lat[0], "public.kern2.g", draw(val)] if side == "glyph-group" else ["public.kern1.g", lat[-1], draw(val)])
    if draw(st.booleans()):
        kerning.append([lat[0], lat[-1], draw(val)])
    if draw(st.booleans()):
        kerning.append([lat[1], lat[1], draw(val)])
    spec["kerning"] = kerning
    shape = draw(st.sampled_from(["two", "two", "three", "three", "map", "2axes", "multivf"]))
    axes = [{"name": "Weight", "tag": "wght", "minimum": 0, "default": 0, "maximum": 1000}]
    if shape == "two":
        masters = [{"k": 0, "loc": {"Weight": 0}}, {"k": 1, "loc": {"Weight": 1000}}]
    elif shape in ("three", "multivf"):
        masters = [{"k": 0, "loc": {"Weight": 0}}, {"k": 1, "loc": {"Weight": 1000}}, {"k": 2, "loc": {"Weight": draw(st.sampled_from([500, 400]))}}]
    elif shape == "map":
        axes = [{"name": "Weight", "tag": "wght", "minimum": 100, "default": 100, "maximum": 900, "map": [[100, 0], [400, 320], [900, 1000]]}]
        masters = [{"k": 0, "loc": {"Weight": 0}}, {"k": 1, "loc": {"Weight": 1000}}]
        if draw(st.booleans()):
            masters.append({"k": 2, "loc": {"Weight": 320}})
    else:
        axes.append({"name": "Width", "tag": "wdth", "minimum": 50, "default": 100, "maximum": 100, "map": [[50, 0], [100, 500]]})
        masters = [{"k": 0, "loc": {"Weight": 0, "Width": 500}}, {"k": 1, "loc": {"Weight": 1000, "Width": 500}}, {"k": 2, "loc": {"Weight": 0, "Width": 0}}, {"k": 3, "loc": {"Weight": 1000, "Width": 0}}]
    fam = {"base": spec, "masters": masters, "axes": axes, "amp": draw(st.sampled_from([0.1, 1, 3])), "diff2x2": False, "tweaks": []}
    if any(g["name"] == "multi" for g in spec["glyphs"]) and draw(st.booleans()):
        fam["tweaks"].append({"kind": "diff2x2", "glyph": "multi", "comp": draw(st.integers(0, 2)), "master": 1, "factor": 1.0, "factor_y": 1.5})
    drop = {}
    for i in range(1, len(masters)):
        if draw(st.booleans()):
            drop[str(i)] = draw(st.lists(st.integers(1, len(kerning) - 1), min_size=1, max_size=2, unique=True)) if len(kerning) > 1 else []
    drop = {k: [j for j in v if not (zero_exc and j == 1)] for k, v in drop.items()}
    drop = {k: v for k, v in drop.items() if v}
    if len(masters) >= 2 and not zero_exc and F.chance(draw, 1, 5):
        # one master without any kerning: every pair is an implicit 0 there
        drop[str(draw(st.integers(0, len(masters) - 1)))] = list(range(len(kerning)))  # the default source too
    if drop:
        fam["drop_kerning"] = drop
    if shape in ("two", "three") and draw(st.sampled_from([True, False, False])):
        fam["sparse"] = {"k": 5, "loc": {"Weight": draw(st.sampled_from([250, 750]))}, "names": [draw(st.sampled_from(simple or lat))]}
    case = {"fam": fam, "module": draw(st.sampled_from(["ufoLib2", "defcon"])), "flavour": draw(st.sampled_from(["ttf", "ttf", "cff2"])), "varfea": draw(st.booleans()) or zero_exc, "shape": shape}
    if zero_exc:
        fam["tweaks"].append({"kind": "const-kerning", "indices": [1], "master": -1})
        case["constant_zero_exception"] = True
    if case["varfea"] and not zero_exc and draw(st.sampled_from([True, False, False])):
        # values that move by exactly one unit between masters (variable features): the class pair and the first anchored glyph's anchor
        anch = [g["name"] for g in spec["glyphs"] if g["name"] in lat and g.get("anchors")]
        fam["tweaks"].append({"kind": "unit-step", "master": -1, "kerning": [0], "anchors": anch[:1]})
        for k_ in list(fam.get("drop_kerning", {})):
            fam["drop_kerning"][k_] = [j for j in fam["drop_kerning"][k_] if j != 0]
            if not fam["drop_kerning"][k_]:
                del fam["drop_kerning"][k_]
        case["unit_step"] = True
    if case["varfea"] and len(lat) >= 4 and draw(st.sampled_from([True, False, False])):
        # kerning groups that only one non-default master defines, with a pair between them
        fam["tweaks"].append({"kind": "extra-groups", "master": draw(st.integers(1, len(masters) - 1)), "groups": {"public.kern1.x": [lat[2]], "public.kern2.x": [lat[0]]},
                              "kerning": [["public.kern1.x", "public.kern2.x", draw(st.sampled_from([-70, 45]))]]})
        case["groups_in_one_master_only"] = True
    if case["varfea"] and draw(st.sampled_from([True, False, False])):
        # variable features only (the merged path needs the class pair in every master): the group-group pair is absent from one non-default master
        i = str(draw(st.integers(1, len(masters) - 1)))
        dk = fam.setdefault("drop_kerning", {})
        dk[i] = sorted(set(dk.get(i, [])) | {0})
        case["group_pair_dropped"] = True
    return case


def strategy(tier):
    return _case()


def sample_view(case):
    fam = case["fam"]
    return {k: case[k] for k in ("module", "flavour", "varfea", "shape")} | {
        "masters": [m["loc"] for m in fam["masters"]], "amp": fam["amp"], "tweaks": fam["tweaks"], "drop_kerning": fam.get("drop_kerning"), "sparse": fam.get("sparse"),
        "kerning": fam["base"]["kerning"], "groups": fam["base"]["groups"],
        "glyphs": [[g["name"], len(g.get("contours", [])), [c["base"] for c in g.get("components", [])], [a["name"] for a in g.get("anchors", [])]] for g in fam["base"]["glyphs"]]}


def to_user(axis, d):
    m = axis.get("map")
    if not m:
        return d
    pts = sorted((dv, uv) for uv, dv in m)
    for (d0, u0), (d1, u1) in zip(pts, pts[1:]):
        if d0 <= d <= d1:
            return u0 + (u1 - u0) * (d - d0) / (d1 - d0) if d1 != d0 else u0
    return pts[0][1] if d < pts[0][0] else pts[-1][1]


def ufo_kern(sp, g1, g2):
    k = {(l, r): v for l, r, v in sp["kerning"]}
    grp1 = grp2 = None
    for n, m in sp["groups"].items():
        if n.startswith("public.kern1.") and g1 in m:
            grp1 = n
        if n.startswith("public.kern2.") and g2 in m:
            grp2 = n
    for key in ((g1, g2), (g1, grp2), (grp1, g2), (grp1, grp2)):
        if None not in key and key in k:
            return k[key]
    return 0


def add_variable_fonts(ds, fam):
    """designspace v5 with two variable fonts: the full range and the upper half (sources Regular..Bold: not a prefix of the source list)"""
    from fontTools.designspaceLib import RangeAxisSubsetDescriptor, VariableFontDescriptor

    mid = fam["masters"][2]["loc"]["Weight"]
    ds.addVariableFont(VariableFontDescriptor(name="Test-Full", axisSubsets=[RangeAxisSubsetDescriptor(name="Weight")]))
    ds.addVariableFont(VariableFontDescriptor(name="Test-Heavy", axisSubsets=[RangeAxisSubsetDescriptor(name="Weight", userMinimum=mid, userDefault=mid, userMaximum=1000)]))


def run_case(case, ctx):
    import ufo2ft
    from fontTools.cu2qu.errors import Error as Cu2QuError
    from fontTools.ttLib import TTFont
    from fontTools.varLib.instancer import instantiateVariableFont

    fam, flavour, varfea = case["fam"], case["flavour"], case["varfea"]
    if extent(fam["base"]) > 3000:
        raise Discard("resolved coordinate beyond +-3000")
    module = S.ufo_module(case["module"])
    ds, _ = F.build_designspace(fam, module)
    ds2, _ = F.build_designspace(fam, module)
    multivf = case["shape"] == "multivf"
    if multivf:
        add_variable_fonts(ds, fam)
    kw = dict(useProductionNames=False)
    from fontTools.varLib.errors import VarLibError

    # per-master layout that is merged afterwards needs a GPOS of the same shape in every master: a documented limitation of that mode
    # (it is why variable features exist); merge rejections are discarded and counted for variableFeatures=False only
    allowed = (Cu2QuError,) if varfea else (Cu2QuError, VarLibError)
    try:
        with guard("compileVariable (%s)" % flavour, allowed=allowed):
            if flavour == "ttf":
                vfs = ufo2ft.compileVariableTTFs(ds, variableFeatures=varfea, **kw) if multivf else {"": ufo2ft.compileVariableTTF(ds, variableFeatures=varfea, **kw)}
                masters = [s.font for s in ufo2ft.compileInterpolatableTTFsFromDS(ds2, **kw).sources]
            else:
                vfs = ufo2ft.compileVariableCFF2s(ds, variableFeatures=varfea, **kw) if multivf else {"": ufo2ft.compileVariableCFF2(ds, variableFeatures=varfea, **kw)}
                masters = [s.font for s in ufo2ft.compileInterpolatableOTFsFromDS(ds2, **kw).sources]
    except Cu2QuError:
        raise Discard("cu2qu could not find a common approximation")
    except VarLibError as e:
        raise Discard("varLib cannot merge the per-master layout tables (variableFeatures=False): %s" % type(e).__name__)
    specs = F.master_specs(fam)
    nfull = len(fam["masters"])
    intermediate = nfull > 2 ** len(fam["axes"])
    kern_tol = 1 if (intermediate or fam.get("sparse")) else 0
    gi0 = R.glyph_index(specs[0])
    lat = [g["name"] for g in specs[0]["glyphs"] if g["name"] not in (".notdef", "acutecomb")]

    def growth(n):
        g = gi0.get(n)
        if g is None or not g.get("components"):
            return 1.0
        return max([math.sqrt(sum(v * v for v in c["t"][:4])) * growth(c["base"]) for c in g["components"] if c["base"] in gi0] or [0]) + 1.0

    for vfname, vf in sorted(vfs.items()):
        b = io.BytesIO()
        vf.save(b)
        data = b.getvalue()
        t = TTFont(io.BytesIO(data))
        fvar = {a.axisTag: (a.minValue, a.maxValue) for a in t["fvar"].axes}
        for i in range(nfull):
            dloc = fam["masters"][i]["loc"]
            uloc = {ax["tag"]: to_user(ax, dloc[ax["name"]]) for ax in fam["axes"]}
            if any(not (fvar[tag][0] <= v <= fvar[tag][1]) for tag, v in uloc.items()):
                continue  # master outside this variable font's range
            nreg = 1 + (1 if intermediate or fam.get("sparse") else 0) + (len(fam["axes"]) - 1)
            t0 = 0.5 * (1 + nreg)
            gs = t.getGlyphSet(location=uloc)
            ms = masters[i].getGlyphSet()
            for n in t.getGlyphOrder():
                tol = t0 * growth(n) + 0.1
                a = otread.draw_cycles(gs, n)
                m = otread.draw_cycles(ms, n)
                if flavour == "ttf":
                    sa = [[len(pts) for _, pts in c[1]] for c in a]
                    sm = [[len(pts) for _, pts in c[1]] for c in m]
                    if sa != sm:
                        raise Violation("point structure at a master location differs from the interpolatable master", font=vfname, glyph=n, master=i, location=uloc)
                a2 = [c for c in a if c[1]]
                m2 = [c for c in m if c[1]]
                if len(a2) != len(m2) and flavour == "ttf":
                    raise Violation("number of contours at a master location differs from the master", font=vfname, glyph=n, master=i)
                pa = [geom.flatten_cycle(_close(c), 0.05) for c in a2]
                pm = [geom.flatten_cycle(_close(c), 0.05) for c in m2]
                if flavour != "ttf":
                    # the variable CFF2 font is specialised: collinear lines are merged, so zero-area spikes (out and back along one line) vanish
                    pa = [_despike(p) for p in pa]
                    pm = [_despike(p) for p in pm]
                    # contours smaller than the rounding bound cannot be told from a point once rounded; the specialised CFF2 charstrings drop zero-length ones
                    pa = [p for p in pa if _extent(p) > 2 * tol]
                    pm = [p for p in pm if _extent(p) > 2 * tol]
                if len(pa) != len(pm):
                    raise Violation("number of drawn contours at a master location differs from the master", font=vfname, glyph=n, master=i, vf=len(pa), master_contours=len(pm))
                bad = c02.match_contours(pm, pa, tol + 0.15)
                if bad is not None:
                    raise Violation("outline of the variable font at a master's location deviates from that master", font=vfname, glyph=n, master=i, location=uloc, tolerance=tol, worst_point=bad[1])
                adv_vf = gs[n].width
                adv_m = masters[i]["hmtx"][n][0]
                if abs(adv_vf - adv_m) > t0 + 1e-6:
                    raise Violation("advance at a master location differs from the master", font=vfname, glyph=n, master=i, vf=adv_vf, master_advance=adv_m)
                ctx.count("glyph-master-comparisons")
            lay = TTFont(io.BytesIO(data))
            for tag in ("CFF2", "HVAR", "VVAR", "MVAR"):  # only the layout tables are read from the instance
                if tag in lay:
                    del lay[tag]
            inst = instantiateVariableFont(lay, uloc)
            sp = specs[i]
            # (when the kerning-less master is the default source of this variable font, the font has no kerning at all: every master of it is affected)
            in_vf = [j for j in range(nfull) if all(fvar[ax["tag"]][0] <= to_user(ax, fam["masters"][j]["loc"][ax["name"]]) <= fvar[ax["tag"]][1] for ax in fam["axes"])]
            kf1 = not varfea and any(not specs[j]["kerning"] for j in in_vf) and any(x["kerning"] for x in specs) and not case.get("no_exclusions")
            if kf1:
                # KF-C10-1: per-master layout, this master has no kerning at all -> no kern lookups (or no GPOS) in its binary, which the merger reads as "no data", not as zeros
                ctx.label("known-finding-class(KF-C10-1)")
            for g1 in lat:
                for g2 in lat:
                    if kf1:
                        break
                    exp = R.ot_round(ufo_kern(sp, g1, g2))
                    (xp, yp, xa, ya), n_, sec = otl.eval_pair(inst, g1, g2, "latn")
                    if abs(xa - exp) > kern_tol:
                        raise Violation("kerning of the variable font at a master's location differs from that master's UFO kerning", font=vfname, pair=[g1, g2], master=i, location=uloc, got=xa, expected=exp, variableFeatures=varfea, master_kerning=sp["kerning"])
                    ctx.count("kerning-pairs-compared")
            gim = R.glyph_index(sp)
            mk = gim["acutecomb"]["anchors"][0]
            for g1 in lat:
                tops = [a for a in gim[g1].get("anchors", []) if a["name"] == "top"]
                got = otl.eval_attach(inst, g1, "acutecomb", "latn")
                if not tops:
                    if got is not None:
                        raise Violation("mark attachment without a matching anchor at a master location", glyph=g1, master=i, got=got)
                    continue
                exp = (R.ot_round(tops[0]["x"]) - R.ot_round(mk["x"]), R.ot_round(tops[0]["y"]) - R.ot_round(mk["y"]))
                if got is None or abs(got[1][0] - exp[0]) > kern_tol + (1 if intermediate else 0) or abs(got[1][1] - exp[1]) > kern_tol + (1 if intermediate else 0):
                    raise Violation("mark attachment of the variable font at a master's location differs from that master's anchors", font=vfname, glyph=g1, master=i, got=got, expected=exp, variableFeatures=varfea)
                ctx.count("mark-attachments-compared")
    ctx.label(flavour)
    ctx.label("variableFeatures=%s" % varfea)
    ctx.label("shape=" + case["shape"])
    if intermediate:
        ctx.label("intermediate-master")
    if fam.get("sparse"):
        ctx.label("sparse-master")
    if any(len(v) == len(fam["base"]["kerning"]) for v in (fam.get("drop_kerning") or {}).values()):
        ctx.label("master-without-any-kerning")
    if case.get("group_pair_dropped"):
        ctx.label("group-pair-missing-in-a-non-default-master")
    if case.get("unit_step"):
        ctx.label("values-moving-by-one-unit-between-masters")
    if case.get("constant_zero_exception"):
        ctx.label("constant-zero-exception-over-class-pair")
    if case.get("groups_in_one_master_only"):
        ctx.label("kerning-groups-in-one-master-only")
    if fam.get("drop_kerning"):
        ctx.label("kerning-pair-missing-in-a-master")
    if fam["tweaks"]:
        ctx.label("differing-2x2-later-component")
    ctx.nontrivial(bool(fam.get("drop_kerning")) or intermediate or not varfea)


def _close(c):
    start, segs = c[0], list(c[1])
    out = []
    for op, pts in segs:
        if op == "qcurve" and pts[-1] is None:
            pts = list(pts[:-1])
            pts = pts + [((pts[-1][0] + pts[0][0]) / 2, (pts[-1][1] + pts[0][1]) / 2)]
        out.append((op, pts))
    return (start, out)


def _despike(poly):
    """remove zero-area spikes (a vertex where the path reverses along the same line) and repeated points from a closed polyline"""
    pts = list(poly[:-1]) if len(poly) > 1 and poly[0] == poly[-1] else list(poly)
    changed = True
    while changed and len(pts) >= 3:
        changed = False
        n = len(pts)
        for i in range(n):
            a, b, c = pts[i - 1], pts[i], pts[(i + 1) % n]
            if max(abs(b[0] - a[0]), abs(b[1] - a[1])) < 1e-3 or max(abs(b[0] - c[0]), abs(b[1] - c[1])) < 1e-3:
                del pts[i]
                changed = True
                break
            cross = (b[0] - a[0]) * (c[1] - b[1]) - (b[1] - a[1]) * (c[0] - b[0])
            dot = (b[0] - a[0]) * (c[0] - b[0]) + (b[1] - a[1]) * (c[1] - b[1])
            # reversal along (almost) the same line: the instance's coordinates are interpolated floats, so "the same line" holds up to ~1e-4 units
            if dot < 0 and abs(cross) <= 0.02 * math.hypot(b[0] - a[0], b[1] - a[1]):
                del pts[i]
                changed = True
                break
    if len(pts) <= 2:
        return [poly[0], poly[0]]  # nothing but a spike: zero area
    return pts + [pts[0]]


def _extent(poly):
    xs = [p[0] for p in poly]
    ys = [p[1] for p in poly]
    return max(max(xs) - min(xs), max(ys) - min(ys))


MANIFEST = {
    "technique": "property-based testing (Hypothesis): variable font evaluated at master locations vs interpolatable masters and vs the masters' UFO kerning/anchors (own GPOS interpreter)",
    "text": "Generated master families; the variable font is evaluated at every full master's location: outlines and advances against the interpolatable master compiled with the "
    "same options (provable rounding bound), kerning and mark attachment of the instantiated GPOS against that master's UFO data with fallback semantics; both variableFeatures "
    "modes, TrueType and CFF2, multi-font designspaces. Counterexample search only.",
    "note": "Trusts fontTools varLib/instancer. Crossing kerning exceptions across masters and fractional user coordinates are outside the generator (see DESIGN.md).",
}
