"""C12 - CFF optimisation, subroutiniser and version never change what is drawn."""
import io
import itertools

from hypothesis import strategies as st

from ufoverif import gen, otread, refmodel as R, spec as S
from ufoverif.checks.c01 import extent
from ufoverif.runner import Discard, Violation, guard

ID = "C12"
RULE = (
    "case = font (1-14 glyphs; outlines as C01 plus repeated glyph parts, look-alike glyphs assembled from a small pool of contour shapes (identical glyphs next to partially shared ones), collinear runs, coincident points, widths equal to / different "
    "from the most common width, zero widths; kerning + anchors so GPOS/GDEF exist) compiled under all 18 combinations optimizeCFF{0,1,2} x "
    "subroutinizer{None,cffsubr,compreffor} x cffVersion{1,2}; oracle = differential against the reference combination (0,None,1): drawings "
    "of EVERY glyph of the compiled font (incl. the .notdef ufo2ft synthesises when the UFO has none) equal under N1 and starting at the same point, exactly equal (N0) among "
    "optimizeCFF=0 combinations, hmtx equal, CFF charstring width == hmtx, raw GPOS/GSUB/GDEF bytes equal; the one combination that really runs compreffor is compiled in a worker "
    "process under a 20 s wall-clock bound (beyond it: counted as inconclusive); the one unsupported "
    "combination must raise NotImplementedError. Non-trivial = some combination actually produced subroutines (Subrs index non-empty) and "
    ">= 2 distinct advance widths occur. Distinct = distinct case hash."
)
ASSUMPTIONS = [
    "fontTools' charstring decoder (including subroutine calls) reports what the saved bytes draw",
    "N1 (dropping zero-length segments, merging collinear axis-aligned lines, degenerate curve -> line) is the rendering-preserving equivalence the specialiser is allowed",
]
N = {"quick": (8, 40), "thorough": (16, 250)}
FLOORS = {"subroutines-present": 0.291, "composite": 0.248}  # a third of the measured frequency: a starving generator is a harness error, sampling noise is not

COMBOS = list(itertools.product([0, 1, 2], [None, "cffsubr", "compreffor"], [1, 2]))
COMPREFFOR_BUDGET_S = 20  # wall-clock bound on one compreffor run (a third-party subroutiniser that needs minutes on a few small generated fonts)
_worker = []


def _close_worker():
    for w in _worker:
        try:
            w.kill()
        except Exception:
            pass
    del _worker[:]


def compile_bounded(spec, module, opt, sub, ver):
    """the compile call in a worker process, answered within COMPREFFOR_BUDGET_S or abandoned: returns the response dict or None (inconclusive)"""
    import atexit
    import json
    import os
    import select
    import subprocess
    import sys

    if not _worker:
        here = os.path.dirname(os.path.dirname(os.path.abspath(__file__)))
        _worker.append(subprocess.Popen([sys.executable, os.path.join(here, "worker12.py")], stdin=subprocess.PIPE, stdout=subprocess.PIPE, stderr=subprocess.DEVNULL, text=True, cwd=os.path.dirname(here)))
        atexit.register(_close_worker)
    w = _worker[0]
    w.stdin.write(json.dumps({"spec": spec, "module": module, "opt": opt, "sub": sub, "ver": ver}) + "\n")
    w.stdin.flush()
    ready, _, _ = select.select([w.stdout], [], [], COMPREFFOR_BUDGET_S)
    if not ready:
        _close_worker()
        return None
    line = w.stdout.readline()
    if not line:
        _close_worker()
        raise RuntimeError("C12 compile worker died")
    return json.loads(line)


@st.composite
def _case(draw):
    spec = draw(gen.outline_font(max_glyphs=8, notdef=None))
    # duplicate some glyphs' contours into new glyphs so subroutinisers find shared material
    simple = [g for g in spec["glyphs"] if g.get("contours")]
    extra = []
    if simple:
        for i in range(draw(st.integers(1, 5))):
            src = draw(st.sampled_from(simple))
            dx = draw(st.sampled_from([0, 0, 10, -25.5, 300]))
            extra.append(
                {
                    "name": "dup%d" % i,
                    "width": draw(st.sampled_from([src.get("width", 0), 500, 0, 600.5])),
                    "unicodes": [],
                    "contours": [[[p[0] + dx, p[1], p[2]] for p in c] for c in src["contours"]] + (draw(st.lists(gen.contour(), max_size=1))),
                }
            )
    spec["glyphs"] = spec["glyphs"] + extra
    if draw(st.sampled_from([True, False, False])):
        # look-alike glyphs assembled from a small pool of contour shapes: identical glyphs (same outline and advance) next to glyphs sharing only part of it
        pool = draw(st.lists(gen.contour(), min_size=2, max_size=4))
        seqs = draw(st.lists(st.lists(st.integers(0, len(pool) - 1), min_size=1, max_size=4), min_size=3, max_size=8))
        seqs.append(list(seqs[0]))
        w2 = draw(st.sampled_from([500, 620]))
        for i, seq in enumerate(seqs):
            spec["glyphs"].append({"name": "pool%d" % i, "width": 500 if i in (0, len(seqs) - 1) else draw(st.sampled_from([500, 500, w2])),
                                   "unicodes": [], "contours": [[list(p) for p in pool[k]] for k in seq]})
    for g in spec["glyphs"]:
        g["width"] = abs(g.get("width", 0))
    names = [g["name"] for g in spec["glyphs"] if g["name"] != ".notdef"]
    if len(names) >= 2 and draw(st.booleans()):
        spec["kerning"] = [[names[0], names[1], draw(st.integers(-100, 100))]]
    if draw(st.integers(0, 3)) == 0:
        ws = [R.ot_round(g["width"]) for g in spec["glyphs"]]
        spec["info"]["postscriptDefaultWidthX"] = draw(st.sampled_from(ws + [0, 500]))
        spec["info"]["postscriptNominalWidthX"] = draw(st.sampled_from(ws + [0, 500, 250.5]))
    return {"spec": spec, "module": draw(st.sampled_from(["ufoLib2", "defcon"]))}


def strategy(tier):
    return _case()


def sample_view(case):
    return {"module": case["module"], "glyphs": [[g["name"], g.get("width"), len(g.get("contours", [])), len(g.get("components", []))] for g in case["spec"]["glyphs"]]}


def _has_subrs(t):
    if "CFF " in t:
        td = t["CFF "].cff.topDictIndex[0]
        n = len(t["CFF "].cff.GlobalSubrs)
        priv = getattr(td, "Private", None)
        if priv is not None and getattr(priv, "Subrs", None) is not None:
            n += len(priv.Subrs)
        return n > 0
    td = t["CFF2"].cff.topDictIndex[0]
    n = len(t["CFF2"].cff.GlobalSubrs)
    for fd in td.FDArray:
        if getattr(fd.Private, "Subrs", None) is not None:
            n += len(fd.Private.Subrs)
    return n > 0


def run_case(case, ctx):
    import ufo2ft
    from fontTools.ttLib import TTFont

    spec = case["spec"]
    if extent(spec) > 16000:
        raise Discard("resolved coordinate beyond +-16000")
    module = S.ufo_module(case["module"])
    names = [g["name"] for g in spec["glyphs"]]
    ref = None
    subrs = False
    for opt, sub, ver in COMBOS:
        unsupported = (opt, sub, ver) == (2, "compreffor", 2)
        if (opt, sub, ver) == (2, "compreffor", 1):
            # the one combination that really runs compreffor: in a worker process under a wall-clock bound; beyond it the combination is inconclusive
            import base64

            resp = compile_bounded(spec, case["module"], opt, sub, ver)
            if resp is None:
                ctx.count("compreffor-runs-abandoned-after-%ds(inconclusive)" % COMPREFFOR_BUDGET_S)
                continue
            if resp.get("not_implemented"):
                raise Violation("NotImplementedError for a supported combination", combo=[opt, sub, ver])
            if "exc" in resp:
                files = [l for l in resp.get("trace", "").splitlines() if l.strip().startswith("File ")]
                if files and "/ufo2ft/" in files[-1]:
                    raise Violation("unexpected %s in compileOTF(optimizeCFF=2, subroutinizer=compreffor, cffVersion=1)" % resp["exc"][:300], bucket=[resp["exc"].split(":")[0], files[-1].strip()[:200]], traceback=resp["trace"][-800:])
                raise RuntimeError("compile worker: " + resp["exc"])
            b = io.BytesIO(base64.b64decode(resp["font"]))
        else:
            try:
                with guard("compileOTF(optimizeCFF=%s, subroutinizer=%s, cffVersion=%s)" % (opt, sub, ver), allowed=(NotImplementedError,)):
                    t = ufo2ft.compileOTF(S.build(spec, module), optimizeCFF=opt, subroutinizer=sub, cffVersion=ver, useProductionNames=False)
                    b = io.BytesIO()
                    t.save(b)
            except NotImplementedError:
                if not unsupported:
                    raise Violation("NotImplementedError for a supported combination", combo=[opt, sub, ver])
                continue
            if unsupported:
                raise Violation("unsupported combination (compreffor, CFF2, subroutinise) did not raise NotImplementedError")
        t = TTFont(io.BytesIO(b.getvalue()))
        gs = t.getGlyphSet()
        if opt == 2 and _has_subrs(t):
            subrs = True
        res = {}
        if set(names) - set(t.getGlyphOrder()):
            raise Violation("a source glyph is missing from the compiled font", combo=[opt, sub, ver], missing=sorted(set(names) - set(t.getGlyphOrder())))
        names = list(t.getGlyphOrder())  # every glyph of the font, including the ones ufo2ft synthesises (.notdef)
        for n in names:
            cyc = otread.draw_cycles(gs, n)
            if ver == 1:
                csw = otread.charstring_width(t, n)
                if csw != t["hmtx"][n][0]:
                    raise Violation("advance encoded in the CFF charstring differs from hmtx", glyph=n, combo=[opt, sub, ver], charstring=csw, hmtx=t["hmtx"][n][0])
            res[n] = (
                [x for x in (R.n1((c[0], c[1])) for c in cyc) if x],
                t["hmtx"][n][0],
                [R.strip_tail((c[0], c[1])) for c in cyc] if opt == 0 else None,
                [tuple(c[0]) for c in cyc if R.n1((c[0], c[1]))],  # N1 is a form of the relative moves: the start point (which no optimisation moves) pins each contour's place
            )
        layout = {tag: t.reader[tag] for tag in ("GPOS", "GDEF", "GSUB") if tag in t.reader}
        if ref is None:
            ref = (res, layout)
            continue
        if set(res) != set(ref[0]):
            raise Violation("glyph set differs from the reference combination", combo=[opt, sub, ver], got=sorted(res), reference=sorted(ref[0]))
        for n in names:
            a, b_ = ref[0][n], res[n]
            if len(a[0]) != len(b_[0]) or not all(R.n1_equal(x, y) for x, y in zip(a[0], b_[0])):
                raise Violation("drawing differs from the reference combination", glyph=n, combo=[opt, sub, ver], reference=a[0], got=b_[0])
            if a[3] != b_[3]:
                raise Violation("a contour starts at a different place than in the reference combination", glyph=n, combo=[opt, sub, ver], reference=a[3], got=b_[3])
            if a[1] != b_[1]:
                raise Violation("advance width differs from the reference combination", glyph=n, combo=[opt, sub, ver], reference=a[1], got=b_[1])
            if opt == 0 and a[2] != b_[2]:
                raise Violation("unoptimised drawings differ exactly", glyph=n, combo=[opt, sub, ver], reference=a[2], got=b_[2])
        if layout != ref[1]:
            raise Violation("layout tables differ from the reference combination", combo=[opt, sub, ver], tags=sorted(layout))
        ctx.count("combinations-compared")
    if subrs:
        ctx.label("subroutines-present")
    if any(g.get("components") for g in spec["glyphs"]):
        ctx.label("composite")
    if any(g["name"].startswith("pool") for g in spec["glyphs"]):
        ctx.label("identical-and-partially-shared-glyphs")
    widths = {R.ot_round(g.get("width", 0)) for g in spec["glyphs"]}
    if not any(g["name"] == ".notdef" for g in spec["glyphs"]):
        ctx.label("synthesised-notdef")
    if "kerning" in spec:
        ctx.label("has-GPOS")
    if "postscriptDefaultWidthX" in spec["info"]:
        ctx.label("explicit-default/nominal-width")
    ctx.nontrivial(subrs and len(widths) >= 2)


MANIFEST = {
    "technique": "property-based differential testing (Hypothesis): 18 option combinations per generated font compared with each other",
    "text": "Generated search; each generated font is compiled under every optimizeCFF x subroutinizer x cffVersion combination and the drawings "
    "(read back from the saved bytes, subroutines expanded), advances and raw layout tables are compared against the unoptimised CFF1 reference. "
    "Counterexample search only.",
    "note": "Trusts fontTools' charstring reader. Equality of drawings is modulo the N1 normal form (plus equal contour start points) for optimizeCFF>=1 and exact among optimizeCFF=0 combinations; every glyph of the compiled font is compared, incl. a synthesised .notdef. The compreffor combination runs in a worker process under a 20 s wall-clock bound (beyond it: inconclusive, counted).",
}
