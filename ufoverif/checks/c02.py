"""C02 - TrueType outlines render the source shape; composites stay valid."""
import io
import math

from hypothesis import strategies as st

from ufoverif import gen, geom, refmodel as R, spec as S
from ufoverif.checks.c01 import classify, extent
from ufoverif.runner import Discard, Violation, guard

ID = "C02"
RULE = (
    "case = font as C01 (line/cubic/quadratic, components with any affine transform incl. |2x2| > 2, mixed glyphs) x {ufoLib2, defcon} x "
    "{convertCubics, reverseDirection, flattenComponents, allQuadratic, cubicConversionError in {None,.0005,.002,.01}, dropImpliedOnCurves, "
    "unitsPerEm in {16,1000,2048}}; oracle = (a) exact rounded point lists (reversed cyclically when reverseDirection) for glyphs whose "
    "source has only line/quadratic contours, (b,e) two-sided threshold distance between the recursively rendered glyf data and the "
    "independently resolved source with bound err*UPM*|M|_F + sqrt(2)/2 (+F2Dot14 slack for composites), (c) mixed glyphs simple, "
    "(d) pure composites keep names/order/rounded offsets/quantised 2x2, references resolve, maxp fields equal values recomputed from glyf, "
    "(f) flattenComponents leaves no nested reference. Non-trivial = a cubic segment and a composite are both present. Distinct = case hash."
)
ASSUMPTIONS = [
    "fontTools' glyf/maxp decompilers report what the saved bytes contain",
    "cu2qu guarantees a parametric error bound, so the geometric distance is <= it (sound bound); unconvertible curves raise cu2qu errors (discarded, counted)",
    "vertex-sampled threshold distance under-estimates the Hausdorff distance: it can miss, never false-alarm",
    "resolved coordinates bounded by +-16000",
]
N = {"quick": (8, 90), "thorough": (16, 500)}
FLOORS = {"cubic": 0.239, "composite": 0.208, "nesting>=2": 0.08, "mirrored-component": 0.08, "mixed-glyph": 0.1, "2x2-beyond-f2dot14": 0.03}  # a third of the measured frequency: a starving generator is a harness error, sampling noise is not


@st.composite
def _case(draw):
    spec = draw(gen.outline_font(max_glyphs=7))
    spec["info"]["unitsPerEm"] = draw(st.sampled_from([1000, 1000, 2048, 16]))
    for g in spec["glyphs"]:
        g["width"] = abs(g.get("width", 0))
    opts = draw(
        st.fixed_dictionaries(
            {},
            optional={
                "flattenComponents": st.booleans(),
                "reverseDirection": st.booleans(),
                "cubicConversionError": st.sampled_from([None, 0.0005, 0.002, 0.01]),
                "dropImpliedOnCurves": st.booleans(),
                "allQuadratic": st.booleans(),
            },
        )
    )
    if draw(st.integers(0, 11)) == 0:
        opts["convertCubics"] = False
    if opts.get("allQuadratic") is False:
        # known finding KF-C02-1 (fontTools TTGlyphPointPen flag bleed): excluded by construction, see kf_class()
        for g in spec["glyphs"]:
            g["contours"] = [_start_on_curve(c) for c in g.get("contours", [])]
    case = {"spec": spec, "module": draw(st.sampled_from(["ufoLib2", "defcon"])), "opts": opts}
    if all(g["name"] != ".notdef" for g in spec["glyphs"]) and opts.get("reverseDirection", True) and draw(st.integers(0, 2)) == 0:
        # the caller's own .notdef (compileTTF(notdefGlyph=...)): inserted after pre-processing, so lines and quadratics only;
        # only with the default reverseDirection, where "reversed to the TrueType convention" is unambiguous
        pt = st.tuples(st.integers(-300, 900), st.integers(-300, 900))
        contours = []
        for _ in range(draw(st.integers(1, 2))):
            pts = draw(st.lists(pt, min_size=3, max_size=5, unique=True))
            c = [(x, y, "line") for x, y in pts]
            if draw(st.booleans()):
                ox, oy = draw(pt)
                c[1:1] = [(ox, oy, None)]
                c[2] = (c[2][0], c[2][1], "qcurve")
            contours.append(c)
        case["notdef_glyph"] = {"name": ".notdef", "width": draw(st.integers(0, 1200)), "contours": contours}
    return case


def _start_on_curve(c):
    if c and c[0][2] is None and any(p[2] == "curve" for p in c):
        i = next(i for i, p in enumerate(c) if p[2] is not None)
        return c[i:] + c[:i]
    return c


def kf_class(case):
    """input class of known finding KF-C02-1: glyf format 1 requested and a contour with a cubic segment starts with an off-curve point"""
    if case["opts"].get("allQuadratic") is not False:
        return None
    for g in case["spec"]["glyphs"]:
        for c in g.get("contours", []):
            if c and c[0][2] is None and any(p[2] == "curve" for p in c):
                return "KF-C02-1"
    return None


def known_class(case):
    return kf_class(case)


def strategy(tier):
    return _case()


def sample_view(case):
    return {
        "module": case["module"],
        "opts": case["opts"],
        "upm": case["spec"]["info"]["unitsPerEm"],
        "glyphs": [[g["name"], len(g.get("contours", [])), [(c["base"], c["t"]) for c in g.get("components", [])]] for g in case["spec"]["glyphs"]],
    }


def frob(m):
    return math.sqrt(sum(v * v for v in m))


def comp_matrix(c):
    if hasattr(c, "transform"):
        return (c.transform[0][0], c.transform[0][1], c.transform[1][0], c.transform[1][1])
    return (1, 0, 0, 1)


def render_tt(glyf, name, depth=0):
    """recursive rendering of glyf data -> list of (start, segs) cycles"""
    if depth > 16:
        raise Violation("component reference cycle or depth > 16 in glyf", glyph=name)
    g = glyf[name]
    if g.isComposite():
        out = []
        for c in g.components:
            if c.glyphName not in glyf.glyphs:
                raise Violation("component references a glyph that is not in the font", glyph=name, base=c.glyphName)
            t = (*comp_matrix(c), c.x, c.y)
            for cyc in render_tt(glyf, c.glyphName, depth + 1):
                out.append(R.map_cycle((cyc[0], cyc[1], True), lambda p: R.apply(t, p))[:2])
        return out
    if g.numberOfContours <= 0:
        return []
    out = []
    s = 0
    for e in g.endPtsOfContours:
        co = [tuple(p) for p in g.coordinates[s : e + 1]]
        fl = list(g.flags[s : e + 1])
        out.append(geom.tt_contour_cycle_flags(co, fl))
        s = e + 1
    return out


def source_err(gi, name, err, memo):
    """conversion error bound of a source glyph: cu2qu runs in the coordinate space of the glyph that owns the contours"""
    if name in memo:
        return memo[name]
    g = gi[name]
    if g.get("contours"):
        # own contours: a mixed glyph is decomposed *before* the conversion, so the whole glyph is converted in its own space
        e = err
    else:
        e = 0.0
        for c in g.get("components", []):
            if c["base"] in gi:
                e = max(e, frob(c["t"][:4]) * source_err(gi, c["base"], err, memo))
    memo[name] = e
    return e


def tol_of(glyf, gi, name, err, memo):
    g = glyf[name]
    if not g.isComposite():
        return source_err(gi, name, err, memo) + 0.7072
    worst = 0
    for c in g.components:
        worst = max(worst, frob(comp_matrix(c)) * tol_of(glyf, gi, c.glyphName, err, memo) + 2**-13 * 23000 + 0.7072)
    return worst


def tt_points(g):
    out = []
    s = 0
    for e in g.endPtsOfContours:
        out.append([(x, y, f & 0x81) for (x, y), f in zip(g.coordinates[s : e + 1], g.flags[s : e + 1])])
        s = e + 1
    return out


def maxp_from_glyf(glyf, order):
    stats = dict(maxPoints=0, maxContours=0, maxCompositePoints=0, maxCompositeContours=0, maxComponentElements=0, maxComponentDepth=0)

    def walk(name, depth=1):
        g = glyf[name]
        if not g.isComposite():
            n = len(g.coordinates) if g.numberOfContours > 0 else 0
            return n, max(g.numberOfContours, 0), depth - 1
        pts = cts = 0
        dmax = depth
        for c in g.components:
            p, k, d = walk(c.glyphName, depth + 1)
            pts += p
            cts += k
            dmax = max(dmax, d)
        return pts, cts, dmax

    for n in order:
        g = glyf[n]
        if g.isComposite():
            p, k, d = walk(n)
            stats["maxCompositePoints"] = max(stats["maxCompositePoints"], p)
            stats["maxCompositeContours"] = max(stats["maxCompositeContours"], k)
            stats["maxComponentElements"] = max(stats["maxComponentElements"], len(g.components))
            stats["maxComponentDepth"] = max(stats["maxComponentDepth"], d)
        elif g.numberOfContours > 0:
            stats["maxPoints"] = max(stats["maxPoints"], len(g.coordinates))
            stats["maxContours"] = max(stats["maxContours"], g.numberOfContours)
    return stats


def cyc_rot_eq(a, b):
    if len(a) != len(b):
        return False
    if not a:
        return True
    return any(a[i:] + a[:i] == b for i in range(len(a)))


def _signed_area(poly):
    return sum(a[0] * b[1] - b[0] * a[1] for a, b in zip(poly, poly[1:])) / 2


def _perimeter(poly):
    return sum(math.hypot(b[0] - a[0], b[1] - a[1]) for a, b in zip(poly, poly[1:]))


def same_orientation(pa, pb, tol):
    """False only when both closed polylines enclose an area large enough to have an orientation (more than a tol-wide band around the outline) and the signs differ"""
    A, B = _signed_area(pa), _signed_area(pb)
    thr = 2 * tol * max(_perimeter(pa), _perimeter(pb)) + 1
    return not (abs(A) > thr and abs(B) > thr and (A > 0) != (B > 0))


def match_contours(pas, pbs, tol, oriented=False):
    """contour order is not part of the statement (fontTools' TrueType pen decomposes nested references of an overflowing
    composite after its direct ones): find a perfect matching of source and rendered contours within tol.
    Returns None or (index of an unmatched source contour, witness point)."""
    n = len(pas)
    cache = {}

    def compat(i, j):
        if (i, j) not in cache:
            ok1, w1 = geom.within(pas[i], pbs[j], tol)
            if ok1:
                ok2, w2 = geom.within(pbs[j], pas[i], tol)
            else:
                ok2, w2 = False, None
            if ok1 and ok2 and oriented and (oriented is True or oriented[i]) and not same_orientation(pas[i], pbs[j], tol):
                ok2, w2 = False, pbs[j][0]
            cache[(i, j)] = (ok1 and ok2, w1 or w2)
        return cache[(i, j)][0]

    if all(compat(i, i) for i in range(n)):
        return None
    match = {}

    def augment(i, seen):
        for j in range(n):
            if j in seen or not compat(i, j):
                continue
            seen.add(j)
            if j not in match or augment(match[j], seen):
                match[j] = i
                return True
        return False

    for i in range(n):
        if not augment(i, set()):
            return (i, cache[(i, i)][1])
    return None


def run_case(case, ctx):
    import ufo2ft
    from fontTools.cu2qu.errors import Error as Cu2QuError
    from fontTools.ttLib import TTFont

    spec, opts = case["spec"], dict(case["opts"])
    if kf_class(case) and not case.get("no_exclusions"):
        raise Discard("input class of known finding KF-C02-1")
    if extent(spec) > 16000:
        raise Discard("resolved coordinate beyond +-16000")
    gi = R.glyph_index(spec)
    f = S.build(spec, S.ufo_module(case["module"]))
    nd = case.get("notdef_glyph")
    if nd is not None:
        nd_font = S.ufo_module(case["module"]).Font()  # kept alive: defcon glyphs reach their font through weak references
        opts["notdefGlyph"] = S._build_glyph(nd_font, nd)
        gi[".notdef"] = nd
        ctx.label("caller-supplied-notdef")
    has_cubic = any(pt[2] == "curve" for g in spec["glyphs"] for c in g.get("contours", []) for pt in c)
    convert = opts.get("convertCubics", True)
    allq = opts.get("allQuadratic", True)
    try:
        with guard("compileTTF", allowed=(Cu2QuError, ValueError)):
            ttf = ufo2ft.compileTTF(f, useProductionNames=False, featureWriters=[], **opts)
            b = io.BytesIO()
            ttf.save(b)
    except Cu2QuError:
        raise Discard("cu2qu could not approximate a curve")
    except ValueError as e:
        if "has cubic Bezier curves" in str(e) and has_cubic and not convert and allq:
            ctx.label("cubic-without-conversion-rejected")
            return
        raise Violation("unexpected ValueError from compileTTF: %s" % e)
    if has_cubic and not convert and allq:
        raise Violation("cubic curves stored although allQuadratic glyf format 0 was requested without conversion")
    t = TTFont(io.BytesIO(b.getvalue()))
    glyf = t["glyf"]
    order = t.getGlyphOrder()
    upm = spec["info"]["unitsPerEm"]
    err = ((opts.get("cubicConversionError") or 0.001) * upm) if convert else 0.0
    reverse = opts.get("reverseDirection", True)
    flatten = opts.get("flattenComponents", False)
    memo = {}
    for g in spec["glyphs"] + ([nd] if nd is not None else []):
        name = g["name"]
        ttg = glyf[name]
        if t["hmtx"][name][0] != R.ot_round(g.get("width", 0)):
            raise Violation("advance width differs", glyph=name, got=t["hmtx"][name][0], source=g.get("width"))
        has_c = bool([c for c in g.get("components", []) if c["base"] in gi])
        has_o = bool(g.get("contours"))
        # (a) exact points for line/quadratic-only simple sources
        own_cubic = any(pt[2] == "curve" for c in g.get("contours", []) for pt in c)
        if has_o and not has_c and not own_cubic and not opts.get("dropImpliedOnCurves"):
            if ttg.isComposite():
                raise Violation("simple source glyph became a composite", glyph=name)
            got = tt_points(ttg) if ttg.numberOfContours > 0 else []
            if len(got) != len(g["contours"]):
                raise Violation("number of contours differs", glyph=name, got=len(got), expected=len(g["contours"]))
            for i, (gc, sc) in enumerate(zip(got, g["contours"])):
                exp = [(R.ot_round(x), R.ot_round(y), 0 if ty is None else 1) for x, y, ty in sc]
                if reverse:
                    exp = list(reversed(exp))
                if not cyc_rot_eq([tuple(p) for p in gc], exp):
                    raise Violation("points of a line/quadratic contour are not reproduced", glyph=name, contour=i, got=gc, expected=exp, reversed=reverse)
                # direction: signed area of the on/off point polygon flips exactly when reversal is requested
            ctx.count("contours-compared-exact", len(got))
        if allq and ttg.numberOfContours > 0 and any(fl & 0x80 for fl in ttg.flags):
            raise Violation("cubic point in an all-quadratic font", glyph=name)
        # (c) mixed glyphs are decomposed
        if has_c and has_o and ttg.isComposite():
            raise Violation("glyph mixing contours and components was not decomposed", glyph=name)
        # (d) pure composites keep their references
        if has_c and not has_o:
            comps = [c for c in g["components"] if c["base"] in gi]
            big = any(not (-2 <= v < 2) for c in comps for v in c["t"][:4])
            near = any(abs(abs(v) - 2) < 1e-3 for c in comps for v in c["t"][:4])
            if big:
                ctx.label("2x2-beyond-f2dot14")
            if not big and not near and not flatten:
                if not ttg.isComposite():
                    raise Violation("pure composite was decomposed although its transforms fit F2Dot14", glyph=name)
            if ttg.isComposite() and not flatten:
                if [c.glyphName for c in ttg.components] != [c["base"] for c in comps]:
                    raise Violation("component list differs", glyph=name, got=[c.glyphName for c in ttg.components], expected=[c["base"] for c in comps])
                for tc, sc in zip(ttg.components, comps):
                    if (tc.x, tc.y) != (R.ot_round(sc["t"][4]), R.ot_round(sc["t"][5])):
                        raise Violation("component offset differs", glyph=name, got=[tc.x, tc.y], source=sc["t"][4:])
                    m = comp_matrix(tc)
                    for a, b_ in zip(m, sc["t"][:4]):
                        if abs(a - b_) > 2**-14 + 1e-9:
                            raise Violation("component 2x2 differs beyond F2Dot14 quantisation", glyph=name, got=list(m), source=sc["t"][:4])
        if ttg.isComposite():
            for c in ttg.components:
                if c.glyphName not in order:
                    raise Violation("component base missing from the font", glyph=name, base=c.glyphName)
                if flatten and glyf[c.glyphName].isComposite():
                    raise Violation("nested component reference after flattenComponents", glyph=name, base=c.glyphName)
        # (e) rendering
        # winding: in a glyph without any mirroring transform in its component closure every contour keeps its direction, reversed once unless reverseDirection=False.
        # (For mirrored references nothing is claimed here: kept as a TrueType component the rasteriser flips them, and fontTools' pen decomposes
        # overflowing transforms without restoring the direction; the direction of decomposed mirrored contours is checked exactly in C01.)
        def mirror_in_closure(n, seen=None):
            seen = seen if seen is not None else set()
            if n in seen or n not in gi:
                return False
            seen.add(n)
            return any(R.det(c["t"]) < 0 or mirror_in_closure(c["base"], seen) for c in gi[n].get("components", []))

        plain = not mirror_in_closure(name)  # a mirrored link anywhere on the way makes the final winding depend on which glyphs were decomposed
        src, oriented = [], []
        for pts, rev in R.resolve(gi, name):
            cyc = R.cycle(pts)
            if cyc is not None and plain and reverse:
                cyc = R.reverse_cycle(cyc)
            src.append(cyc)
            oriented.append(plain)
        got = render_tt(glyf, name)
        if len(src) != len(got):
            raise Violation("number of rendered contours differs", glyph=name, got=len(got), expected=len(src))
        tol = tol_of(glyf, gi, name, err, memo) + 0.15
        pas = [geom.flatten_cycle(sc, 0.05) for sc in src]
        pbs = [geom.flatten_cycle(gc, 0.05) for gc in got]
        ctx.count("contours-rendered", len(src))
        bad = match_contours(pas, pbs, tol, oriented=oriented)
        if bad is not None:
            if match_contours(pas, pbs, tol) is None:
                raise Violation("rendered contour has the opposite winding direction", glyph=name, contour=bad[0], reverseDirection=reverse)
            raise Violation("rendered contour deviates from the source beyond the conversion bound", glyph=name, contour=bad[0], tolerance=tol, worst_point=bad[1])
    # maxp
    exp = maxp_from_glyf(glyf, order)
    exp["numGlyphs"] = len(order)
    for k, v in exp.items():
        if getattr(t["maxp"], k) != v:
            raise Violation("maxp.%s does not match the glyph data" % k, got=getattr(t["maxp"], k), expected=v)
    classify(spec, ctx)
    if has_cubic:
        ctx.label("cubic")
    for k, v in sorted(opts.items()):
        if k != "notdefGlyph":
            ctx.label("%s=%s" % (k, v))
    ctx.nontrivial(has_cubic and any(g.get("components") for g in spec["glyphs"]))


MANIFEST = {
    "technique": "property-based testing (Hypothesis) against an independent renderer with a provable curve-distance bound, plus exact point/structure oracles",
    "text": "Generated search over fonts x TrueType compile options. The glyf table of the saved font is rendered recursively by the harness and compared "
    "with the independently resolved source shape under a tolerance derived from the configured conversion error, component matrices and rounding; "
    "line/quadratic contours are compared point for point; composite structure, offsets, 2x2 and maxp are recomputed from the data.",
    "note": "Trusts fontTools' glyf reader. Distance test is a sampled threshold test (can miss sub-tolerance deviations between samples, never false-alarms).",
}
