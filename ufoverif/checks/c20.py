"""C20 - generated positioning features are reachable from every registered script."""
import io
import re

from hypothesis import strategies as st

from ufoverif import otl, spec as S
from ufoverif.runner import Discard, Violation, guard

ID = "C20"
RULE = (
    "case = (3-9 glyphs over Latin, Cyrillic, Arabic, Hebrew, Devanagari, punctuation, a multi-script letter (U+02BC) and marks; kerning; attaching anchors (top/_top) "
    "and/or cursive entry/exit anchors; complete GDEF categories; feature text with no languagesystem, DFLT only, some or all scripts incl. both OpenType tags of a script "
    "and extra languages; optional skipExportGlyphs of the only single-script glyph of a script; writers as classes or as instances first used on another font) x "
    "{ufoLib2, defcon}; oracle = for every script record and every language system of the compiled GPOS: if generated kern/dist is reachable, every generated feature among "
    "mark/mkmk/abvm/blwm/curs owning a lookup that covers a glyph of that script is reachable too. Default language systems of scripts that the user did not declare but that "
    "the kern writer registers by its documented rule (an exported glyph belongs to that script alone) and for which kerning of their own survives are the known finding KF-C20-1. "
    "Also: variable fonts whose default source is listed second and alone carries the feature text; a right-to-left letter kerned only against a digit (pair dropped), with/without a spacing mark. Non-trivial = >= 2 scripts with kerning and "
    "a mark or cursive attachment on a non-DFLT script. Distinct = case hash."
)
ASSUMPTIONS = [
    "fontTools' GPOS reader; script of a tag via fontTools.unicodedata.ot_tag_to_script; script membership of a glyph via Unicode script extensions",
    "a generated feature 'acts on glyphs of a script' when one of its lookups covers a glyph whose script extensions contain that script",
]
N = {"quick": (8, 300), "thorough": (16, 1500)}
FLOORS = {"declared-scripts": 0.188, "no-languagesystem": 0.1, "two-scripts-with-kerning": 0.185, "cursive": 0.15, "known-finding-class-hit": 0.1}  # a third of the measured frequency: a starving generator is a harness error, sampling noise is not

POOL = [("A", 0x41), ("a", 0x61), ("be-cy", 0x431), ("ie-cy", 0x435), ("alef-ar", 0x627), ("beh-ar", 0x628), ("bet-hb", 0x5D1), ("ka-deva", 0x915), ("period", 0x2E),
        ("apostrophemod", 0x2BC), ("acutecomb", 0x301), ("fatha-ar", 0x64E), ("anusvara-deva", 0x902),
        ("a-hira", 0x3042), ("ka-kata", 0x30AB), ("Gamma", 0x393), ("de-cy", 0x434),
        ("a-osage", 0x104B0), ("ai-osage", 0x104B1), ("ko-lao", 0xE81), ("kho-lao", 0xE82)]  # a supplementary-plane script and one with a three-letter OpenType tag
MARKS = {"acutecomb", "fatha-ar", "anusvara-deva"}
TAGS = ["latn", "arab", "cyrl", "hebr", "dev2", "deva", "kana", "grek", "osge", "lao"]


@st.composite
def _font(draw):
    names = draw(st.lists(st.sampled_from(POOL), min_size=3, max_size=9, unique=True))
    glyphs = []
    for n, u in names:
        g = {"name": n, "width": 0 if n in MARKS else 500, "unicodes": [u], "contours": [[[0, 0, "line"], [100, 0, "line"], [100, 100, "line"]]], "anchors": []}
        if n in MARKS:
            g["anchors"] = [{"name": "_top", "x": 0, "y": 600}]
            if draw(st.booleans()):
                g["anchors"].append({"name": "top", "x": 0, "y": 800})
        elif draw(st.booleans()):
            g["anchors"] = [{"name": "top", "x": 250, "y": 700}]
        if n in ("beh-ar", "alef-ar", "a", "be-cy") and draw(st.booleans()):
            g["anchors"] += [{"name": "entry", "x": 500, "y": 0}, {"name": "exit", "x": 0, "y": 0}]
        glyphs.append(g)
    gn = [g["name"] for g in glyphs]
    pairs = draw(st.lists(st.tuples(st.sampled_from(gn), st.sampled_from(gn)), max_size=6, unique=True))
    chain = False
    if draw(st.integers(0, 5)) == 0:
        # cross-script kerning that chains three scripts together (Latin-Greek, Greek-Cyrillic), one of them without same-script pairs, in any storage order
        for n, u in (("A", 0x41), ("a", 0x61), ("period", 0x2E), ("Gamma", 0x393), ("de-cy", 0x434)):
            if n not in gn:
                glyphs.append({"name": n, "width": 500, "unicodes": [u], "contours": [[[0, 0, "line"], [100, 0, "line"], [100, 100, "line"]]], "anchors": [{"name": "top", "x": 250, "y": 700}] if n != "period" else []})
                gn.append(n)
        pairs = list(draw(st.permutations([("A", "a"), ("period", "period"), ("Gamma", "de-cy"), ("A", "Gamma")]))) + [p for p in pairs[:2] if p not in (("A", "a"), ("period", "period"), ("Gamma", "de-cy"), ("A", "Gamma"))]
        chain = True
    ambig = False
    if not chain and draw(st.integers(0, 7)) == 0:
        # a right-to-left letter whose only kerning is against a European digit (dropped by the writer as ambiguous in direction) beside a common-script pair:
        # no kerning of that script survives
        ambig = True
        for n, u in (("bet-hb", 0x5D1), ("one", 0x31), ("period", 0x2E), ("hyphen", 0x2D), ("a", 0x61), ("acutecomb", 0x301)):
            if n not in gn:
                glyphs.append({"name": n, "width": 0 if n in MARKS else 500, "unicodes": [u], "contours": [[[0, 0, "line"], [100, 0, "line"], [100, 100, "line"]]], "anchors": []})
                gn.append(n)
        for g in glyphs:
            if g["name"] in ("bet-hb", "a") and not any(a["name"] == "top" for a in g["anchors"]):
                g["anchors"].append({"name": "top", "x": 250, "y": 700})
            if g["name"] == "acutecomb" and not g["anchors"]:
                g["anchors"] = [{"name": "_top", "x": 0, "y": 600}]
        if draw(st.booleans()):
            # ... in a font with a spacing mark: the kern lookups then carry a mark filtering class besides their rules
            glyphs.append({"name": "sheva-hb", "width": 300, "unicodes": [0x5B0], "contours": [[[0, 0, "line"], [100, 0, "line"], [100, 100, "line"]]], "anchors": [{"name": "_top", "x": 0, "y": 600}]})
            gn.append("sheva-hb")
        pairs = [p for p in pairs if "bet-hb" not in p][:3] + [draw(st.sampled_from([("bet-hb", "one"), ("one", "bet-hb")])), ("period", "hyphen")]
    kern = [[a, b, -10 - i] for i, (a, b) in enumerate(pairs)]
    spec = {"info": {"unitsPerEm": 1000}, "glyphs": glyphs, "kerning": kern, "lib": {"public.openTypeCategories": {n: ("mark" if n in MARKS or n == "sheva-hb" else "base") for n in gn}}}
    mode = "all" if chain else draw(st.sampled_from(["none", "dflt", "some", "some", "all"]))
    tags = {"none": [], "dflt": [], "some": draw(st.lists(st.sampled_from(TAGS), unique=True, max_size=3)), "all": list(TAGS)}[mode]
    if ambig and mode != "none":
        tags = [t_ for t_ in tags if t_ != "hebr"]
    stmts = []
    for t in tags:
        stmts.append("languagesystem %s dflt;\n" % t)
        if draw(st.sampled_from([True, False, False])):
            for lang in draw(st.lists(st.sampled_from(["MAR ", "TRK ", "URD ", "AZE ", "JAN ", "KUY "]), min_size=1, max_size=2, unique=True)):
                stmts.append("languagesystem %s %s;\n" % (t, lang))
    if len(stmts) > 1 and draw(st.sampled_from([True, False])):
        # any declaration order: a script's languages before its dflt, scripts interleaved (only DFLT dflt has to come first)
        stmts = list(draw(st.permutations(stmts)))
    fea = ("" if mode == "none" else "languagesystem DFLT dflt;\n") + "".join(stmts)
    spec["features"] = fea
    if len(gn) > 3 and draw(st.sampled_from([True, False, False])):
        spec["lib"]["public.skipExportGlyphs"] = [draw(st.sampled_from(gn))]
    return spec


@st.composite
def _case(draw):
    case = {"spec": draw(_font()), "module": draw(st.sampled_from(["ufoLib2", "defcon"]))}
    if draw(st.sampled_from([True, False, False])):
        case["first"] = draw(_font())
    elif "public.skipExportGlyphs" not in case["spec"]["lib"] and draw(st.integers(0, 4)) == 0:
        case["vf_default_second"] = True
    return case


def strategy(tier):
    return _case()


def sample_view(case):
    sp = case["spec"]
    return {"module": case["module"], "reused_writers": "first" in case, "glyphs": [[g["name"], [a["name"] for a in g["anchors"]]] for g in sp["glyphs"]], "kerning": sp["kerning"],
            "features": sp["features"], "skip": sp["lib"].get("public.skipExportGlyphs")}


def second_glyphs(t, li):
    """glyphs that appear as the second member of a pair in a PairPos lookup"""
    lk = t["GPOS"].table.LookupList.Lookup[li]
    out = set()
    for stt in lk.SubTable:
        if stt.LookupType == 9:
            stt = stt.ExtSubTable
        if stt.LookupType != 2:
            continue
        if stt.Format == 1:
            out |= {r.SecondGlyph for ps in stt.PairSet for r in ps.PairValueRecord}
        else:
            out |= {g for g, c in stt.ClassDef2.classDefs.items() if c}
    return out


def lookup_glyphs(t, li):
    lk = t["GPOS"].table.LookupList.Lookup[li]
    out = set()
    for stt in lk.SubTable:
        if stt.LookupType == 9:
            stt = stt.ExtSubTable
        for attr in ("Coverage", "BaseCoverage", "MarkCoverage", "LigatureCoverage", "Mark1Coverage", "Mark2Coverage"):
            c = getattr(stt, attr, None)
            if c is not None:
                out |= set(c.glyphs)
    return out


def run_case(case, ctx):
    import ufo2ft
    from fontTools import unicodedata as ud
    from fontTools.ttLib import TTFont
    from ufo2ft.featureWriters import CursFeatureWriter, GdefFeatureWriter, KernFeatureWriter, MarkFeatureWriter

    spec = case["spec"]
    module = S.ufo_module(case["module"])
    writers = None
    if "first" in case:
        writers = [KernFeatureWriter(), MarkFeatureWriter(), GdefFeatureWriter(), CursFeatureWriter()]
        try:
            ufo2ft.compileTTF(S.build(case["first"], module), useProductionNames=False, featureWriters=writers)
        except Exception:
            pass
    with guard("compileTTF"):
        if case.get("vf_default_second"):
            # a variable font whose default source is listed second and is the only one that carries feature text (the declarations count for the whole font)
            from fontTools.designspaceLib import AxisDescriptor, DesignSpaceDocument, SourceDescriptor

            ds = DesignSpaceDocument()
            ax = AxisDescriptor()
            ax.name, ax.tag, ax.minimum, ax.default, ax.maximum = "Weight", "wght", 0, 0, 1000
            ds.addAxis(ax)
            bare = dict(spec, features="")
            for nm_, sp_, w_ in (("bold", bare, 1000), ("regular", spec, 0)):
                sd = SourceDescriptor()
                sd.font, sd.name, sd.location = S.build(sp_, module), nm_, {"Weight": w_}
                ds.addSource(sd)
            t = ufo2ft.compileVariableTTF(ds, useProductionNames=False)
            ctx.label("variable-font-default-source-listed-second")
        else:
            t = ufo2ft.compileTTF(S.build(spec, module), useProductionNames=False, featureWriters=writers)
        b = io.BytesIO()
        t.save(b)
    t = TTFont(io.BytesIO(b.getvalue()))
    if "GPOS" not in t:
        ctx.label("no-GPOS")
        return
    skip = set(spec["lib"].get("public.skipExportGlyphs", []))
    scx = {g["name"]: set().union(*[set(ud.script_extension(chr(u))) for u in g["unicodes"]]) if g["unicodes"] else set() for g in spec["glyphs"]}
    declared = {}
    for m in re.finditer(r"languagesystem\s+(\S+)\s+(\S+)\s*;", spec["features"]):
        declared.setdefault(m.group(1).ljust(4), set()).add(m.group(2).strip())  # OpenType tags are space-padded to four characters
    # scripts the kern writer registers by its documented rule: an exported glyph belonging to that script alone
    single = {next(iter(s)) for n, s in scx.items() if n not in skip and len(s) == 1}
    # ... or a script declared through (another) one of its OpenType tags (e.g. dev2 declared, deva not)
    single |= {ud.ot_tag_to_script(tg) for tg in declared if tg != "DFLT"}
    feats = {}
    gp = t["GPOS"].table
    for fr in gp.FeatureList.FeatureRecord:
        for li in fr.Feature.LookupListIndex:
            feats.setdefault(fr.FeatureTag, set()).update(lookup_glyphs(t, li))
    known = 0
    checked = 0
    for rec in gp.ScriptList.ScriptRecord:
        tag = rec.ScriptTag
        systems = [("dflt", rec.Script.DefaultLangSys)] + [(l.LangSysTag.strip(), l.LangSys) for l in rec.Script.LangSysRecord]
        for lang, ls in systems:
            if ls is None:
                continue
            idx = list(ls.FeatureIndex) + ([ls.ReqFeatureIndex] if ls.ReqFeatureIndex != 0xFFFF else [])
            have = {gp.FeatureList.FeatureRecord[i].FeatureTag for i in idx}
            if not have & {"kern", "dist"} or tag == "DFLT":
                continue
            S_ = ud.ot_tag_to_script(tag)
            checked += 1
            for ft in ("mark", "mkmk", "abvm", "blwm", "curs"):
                if ft in feats and ft not in have and any(S_ in scx.get(g, set()) for g in feats[ft]):
                    # KF-C20-1 concerns scripts the kern writer registers because kerning of theirs survives: some glyph of the script is covered by the kern/dist
                    # lookups this language system reaches. A script registered without any such glyph is not that finding.
                    kerned_here = set()
                    for i in idx:
                        fr_ = gp.FeatureList.FeatureRecord[i]
                        if fr_.FeatureTag in ("kern", "dist"):
                            for li in fr_.Feature.LookupListIndex:
                                kerned_here |= lookup_glyphs(t, li) | second_glyphs(t, li)
                    own_kerning = any(tag in ud.ot_tags_from_script(s_) for g in kerned_here for s_ in scx.get(g, set()))  # by OpenType tag: 'kana' serves Hira and Kana
                    is_known = lang == "dflt" and tag not in declared and S_ in single and own_kerning and not case.get("no_exclusions")
                    if is_known:
                        known += 1
                        continue
                    raise Violation(
                        "language system exposes generated kerning but not the generated %s feature acting on its glyphs" % ft,
                        script=tag, language=lang, reachable=sorted(have), declared={k: sorted(v) for k, v in declared.items()},
                        scripts_with_a_single_script_exported_glyph=sorted(single),
                    )
    order = [(m.group(1), m.group(2).strip()) for m in re.finditer(r"languagesystem\s+(\S+)\s+(\S+)\s*;", spec["features"])]
    if any(l != "dflt" and (sc_, "dflt") in order[i + 1:] for i, (sc_, l) in enumerate(order)):
        ctx.label("language-declared-before-its-script's-dflt")
    if any(order[i][0] != order[i + 1][0] and order[i][0] in [o[0] for o in order[i + 2:]] for i in range(len(order) - 1)):
        ctx.label("scripts-interleaved-in-declarations")
    # every language system of one script exposes the same generated features acting on that script's glyphs
    GEN = ("kern", "dist", "mark", "mkmk", "abvm", "blwm", "curs")
    for rec in gp.ScriptList.ScriptRecord:
        tag = rec.ScriptTag
        if tag == "DFLT":
            continue
        S_ = ud.ot_tag_to_script(tag)
        systems = [("dflt", rec.Script.DefaultLangSys)] + [(l.LangSysTag.strip(), l.LangSys) for l in rec.Script.LangSysRecord]
        per = {}
        for lang, ls in systems:
            if ls is None:
                continue
            idx = list(ls.FeatureIndex) + ([ls.ReqFeatureIndex] if ls.ReqFeatureIndex != 0xFFFF else [])
            per[lang] = {gp.FeatureList.FeatureRecord[i].FeatureTag for i in idx} & {ft for ft in GEN if ft in feats and any(S_ in scx.get(g, set()) or not scx.get(g) for g in feats[ft])}
        if len(per) > 1:
            union = set().union(*per.values())
            for lang, have in per.items():
                if have != union:
                    raise Violation("a language system of a script lacks a generated positioning feature that another language system of the same script exposes", script=tag, language=lang,
                                    missing=sorted(union - have), per_language={k: sorted(v) for k, v in per.items()}, features=spec["features"])
            ctx.label("script-with-several-language-systems")
    # ... and the other direction for glyphs that belong to one script only: a generated kern/dist lookup that covers such a glyph is reachable from
    # that script's language systems when the script is in the GPOS at all and was declared by the user (undeclared scripts: KF-C20-1)
    kern_glyphs = feats.get("kern", set()) | feats.get("dist", set())
    for fr in gp.FeatureList.FeatureRecord:
        if fr.FeatureTag in ("kern", "dist"):
            for li in fr.Feature.LookupListIndex:
                kern_glyphs = kern_glyphs | second_glyphs(t, li)
    for rec in gp.ScriptList.ScriptRecord:
        tag = rec.ScriptTag
        if tag == "DFLT" or tag not in declared:
            continue
        S_ = ud.ot_tag_to_script(tag)
        own = sorted(g for g in kern_glyphs if scx.get(g) == {S_})
        if not own:
            continue
        for lang, ls in [("dflt", rec.Script.DefaultLangSys)] + [(l.LangSysTag.strip(), l.LangSys) for l in rec.Script.LangSysRecord]:
            if ls is None:
                continue
            idx = list(ls.FeatureIndex) + ([ls.ReqFeatureIndex] if ls.ReqFeatureIndex != 0xFFFF else [])
            have = {gp.FeatureList.FeatureRecord[i].FeatureTag for i in idx}
            if not have & {"kern", "dist"}:
                raise Violation("a declared script has generated kerning acting on its glyphs but exposes neither kern nor dist", script=tag, language=lang, reachable=sorted(have),
                                glyphs_of_that_script_in_kern_lookups=own, features=spec["features"], kerning=spec["kerning"])
        ctx.count("declared-scripts-with-own-kerned-glyphs-checked")
    ctx.count("language-systems-checked", checked)
    ctx.count("language-systems-in-known-finding-class(KF-C20-1)", known)
    if known:
        ctx.label("known-finding-class-hit")
    if declared:
        ctx.label("declared-scripts")
    else:
        ctx.label("no-languagesystem")
    kerned_scripts = set()
    for a, b_, v in spec["kerning"]:
        kerned_scripts |= {s for s in (scx.get(a, set()) | scx.get(b_, set())) if s not in ("Zyyy", "Zinh")}
    if len(kerned_scripts) >= 2:
        ctx.label("two-scripts-with-kerning")
    if "curs" in feats:
        ctx.label("cursive")
    if "first" in case:
        ctx.label("writer-instances-reused")
    if skip:
        ctx.label("skip-list")
    ctx.nontrivial(len(kerned_scripts) >= 2 and bool(set(feats) & {"mark", "mkmk", "abvm", "blwm", "curs"}))


MANIFEST = {
    "technique": "property-based testing (Hypothesis): reachability invariant over the compiled GPOS script/language/feature graph",
    "text": "Generated repertoires, kerning, anchors and languagesystem declarations; for every script record and language system of the compiled GPOS the set of reachable "
    "features is computed and the implication 'generated kerning reachable => generated mark/mkmk/abvm/blwm/curs acting on that script reachable' is checked. "
    "Counterexample search only.",
    "note": "Default language systems of undeclared scripts registered by the kern writer's documented rule are the listed known finding KF-C20-1.",
}
