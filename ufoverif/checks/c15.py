"""C15 - component/transform filters preserve rendering; anchors follow components."""
import math

from hypothesis import strategies as st

from ufoverif import gen, refmodel as R, snapshot as SN, spec as S
from ufoverif.runner import Discard, Violation, guard

ID = "C15"
RULE = (
    "case = (component DAG of depth <= 4 with shared bases, repeated bases, mixed glyphs and any affine transforms incl. mirrors; anchors incl. '_x', "
    "numbered ligature anchors and prefixes; heights) x filter in {DecomposeComponents, DecomposeTransformedComponents, FlattenComponents, "
    "Transformations(OffsetX/Y, ScaleX/Y, Slant, Origin 0-4), PropagateAnchors} x include subsets x {ufoLib2, defcon}; oracle = independent renderer "
    "before/after: resolved contours identical (reversal included) for decompose/decompose-transformed/flatten, flatten leaves no nested pure composite, "
    "decompose-transformed touches exactly glyphs with a non-identity 2x2; Transformations maps resolved outline, anchors and advance of every included "
    "glyph (whose include set is clean below it) by the matrix built locally from the options; PropagateAnchors: existing anchors untouched and first, "
    "every new anchor lies where a component maps a base anchor, single-component composites gain exactly the missing anchors, second application "
    "changes nothing. Non-trivial = nesting >= 2 with a non-translation transform, or (Transformations) a base and its composite both included. "
    "Distinct = case hash."
)
ASSUMPTIONS = [
    "float comparisons use relative tolerance 1e-6",
    "Transformations: the rendering clause is claimed for included glyphs whose include set is clean below them (an un-included intermediate composite cannot be compensated without touching it, which C14 forbids)",
]
N = {"quick": (8, 200), "thorough": (16, 1500)}
FLOORS = {"nesting>=3": 0.05, "mirrored-component": 0.1, "filter=transform": 0.045, "filter=propagate": 0.058, "filter=flatten": 0.056}  # a third of the measured frequency: a starving generator is a harness error, sampling noise is not

FILTERS = ["decompose", "decomposeT", "flatten", "transform", "propagate"]
ANCHORS = ["top", "bottom", "_top", "ogonek", "top_1", "top_2", "topright"]

tf_opts = st.fixed_dictionaries(
    {},
    optional={
        "OffsetX": st.integers(-100, 100),
        "OffsetY": st.integers(-100, 100),
        "ScaleX": st.sampled_from([100, 50, 120, -100, 75.5]),
        "ScaleY": st.sampled_from([100, 80, 130, -100]),
        "Slant": st.sampled_from([0, 12, -8.5]),
        "Origin": st.integers(0, 4),
    },
)


@st.composite
def _case(draw):
    spec = draw(gen.outline_font(max_glyphs=7, notdef=False))
    names = [g["name"] for g in spec["glyphs"]]
    # extra structure: a pure chain of composites (depth 3-4) with non-identity inner links, and a glyph using the same base twice + a nested use
    if draw(st.booleans()) and names:
        base = names[0]
        prev = base
        for k in range(draw(st.integers(2, 3))):
            n = "chain%d" % k
            comps = [{"base": prev, "t": draw(gen.transform())}]
            if k >= 1 and draw(st.booleans()):
                comps.append({"base": base, "t": draw(gen.transform())})
            if draw(st.booleans()):
                comps.insert(0, {"base": prev, "t": [1, 0, 0, 1, draw(st.integers(-50, 50)), 0]})
            spec["glyphs"].append({"name": n, "width": 500, "unicodes": [], "components": comps})
            prev = n
    names = [g["name"] for g in spec["glyphs"]]
    for i, g in enumerate(spec["glyphs"]):
        ks = draw(st.lists(st.sampled_from(ANCHORS), unique=True, max_size=2))
        g["anchors"] = [{"name": k, "x": draw(st.integers(-100, 500)) / 2, "y": draw(st.integers(-100, 800))} for k in ks]
        g["height"] = draw(st.sampled_from([0, 0, 100, 1000]))
        g["width"] = abs(g.get("width", 0))
    which = draw(st.sampled_from(FILTERS))
    if which == "propagate" and draw(st.booleans()):
        # accented-letter structure: a base component plus mark components whose glyph carries both the attaching anchor (_top) and the stacking anchor (top);
        # the mark components are scaled / mirrored / rotated, and the composite is nested once more
        tri = [[0, 0, "line"], [100, 0, "line"], [50, 80, "line"]]
        spec["glyphs"].append({"name": "pbase", "width": 500, "height": 0, "unicodes": [], "contours": [tri], "anchors": [{"name": "top", "x": 250, "y": 700}, {"name": "bottom", "x": 250, "y": 0}]})
        spec["glyphs"].append({"name": "pmark", "width": 0, "height": 0, "unicodes": [], "contours": [tri], "anchors": [{"name": "_top", "x": 50, "y": 0}, {"name": "top", "x": 55, "y": 120}]})
        spec["glyphs"].append({"name": "pbelow", "width": 0, "height": 0, "unicodes": [], "contours": [tri], "anchors": [{"name": "_bottom", "x": 50, "y": 80}, {"name": "bottom", "x": 45, "y": -30}]})
        for k in range(draw(st.integers(1, 3))):
            comps = [{"base": "pbase", "t": draw(st.sampled_from([[1, 0, 0, 1, 0, 0], [1, 0, 0, 1, 10, 0], [0.8, 0, 0, 0.8, 0, 0]]))}, {"base": "pmark", "t": draw(gen.transform())}]
            if draw(st.booleans()):
                comps.append({"base": "pbelow", "t": draw(gen.transform())})
            own = draw(st.sampled_from([[], [], [{"name": "bottom", "x": 1, "y": 2}], [{"name": "top_1", "x": 3, "y": 4}]]))
            spec["glyphs"].append({"name": "pacc%d" % k, "width": 500, "height": 0, "unicodes": [], "components": comps, "anchors": own})
        spec["glyphs"].append({"name": "pacc.sups", "width": 300, "height": 0, "unicodes": [], "components": [{"base": "pacc0", "t": [0.6, 0, 0, 0.6, 0, 300]}], "anchors": []})
        names = [g["name"] for g in spec["glyphs"]]
    opts = dict(draw(tf_opts)) if which == "transform" else {}
    if which != "propagate" and draw(st.booleans()):
        opts["include"] = draw(st.lists(st.sampled_from(names), unique=True, min_size=1))
    if draw(st.sampled_from([False, False, False, True])):
        spec["info"].update({"capHeight": draw(st.sampled_from([700, 701, 650.5])), "xHeight": draw(st.sampled_from([500, 481]))})
    return {"spec": spec, "module": draw(st.sampled_from(["ufoLib2", "defcon"])), "filter": which, "opts": opts}


def strategy(tier):
    return _case()


def sample_view(case):
    return {"module": case["module"], "filter": case["filter"], "opts": case["opts"],
            "glyphs": [[g["name"], len(g.get("contours", [])), [(c["base"], c["t"]) for c in g.get("components", [])], [a["name"] for a in g.get("anchors", [])]] for g in case["spec"]["glyphs"]]}


def close(a, b, eps=1e-6):
    return abs(a - b) <= eps * max(1, abs(a), abs(b))


def canon(render):
    out = []
    for pts, rev in render:
        c = R.cycle(pts)
        if c is None:
            continue
        if rev:
            c = R.reverse_cycle(c)
        out.append(c)
    return out


def cyc_close(c1, c2, M=None, any_direction=False):
    if len(c1) != len(c2):
        return False
    for a, b in zip(c1, c2):
        if M is not None:
            a = R.map_cycle(a, lambda p: R.apply(M, p))
        if any_direction and not cyc_close([a], [b]):
            a = R.reverse_cycle(a)
        sa, sb = R._abs_cycle(a), R._abs_cycle(b)
        if len(sa) != len(sb):
            return False
        n = len(sa)

        def seq(x, y):
            return x[1] == y[1] and len(x[2]) == len(y[2]) and all(close(p[0], q[0]) and close(p[1], q[1]) for p, q in zip((x[0],) + x[2], (y[0],) + y[2]))

        if n and not any(all(seq(sa[(i + r) % n], sb[i]) for i in range(n)) for r in range(n)):
            return False
    return True


def depth_of(gi, n, memo=None):
    memo = {} if memo is None else memo
    if n not in memo:
        memo[n] = 0
        memo[n] = max([1 + depth_of(gi, c["base"], memo) for c in gi[n].get("components", []) if c["base"] in gi] or [0])
    return memo[n]


def run_case(case, ctx):
    from ufo2ft.filters import DecomposeComponentsFilter, DecomposeTransformedComponentsFilter, FlattenComponentsFilter, PropagateAnchorsFilter, TransformationsFilter
    from ufo2ft.fontInfoData import getAttrWithFallback
    from ufo2ft.util import _GlyphSet

    spec, which, opts = case["spec"], case["filter"], dict(case["opts"])
    f = S.build(spec, S.ufo_module(case["module"]))
    gs = _GlyphSet.from_layer(f, copy=True)
    gi0 = R.glyph_index(SN.glyphset_to_spec(gs))
    names = list(gi0)
    cls = {"decompose": DecomposeComponentsFilter, "decomposeT": DecomposeTransformedComponentsFilter, "flatten": FlattenComponentsFilter,
           "transform": TransformationsFilter, "propagate": PropagateAnchorsFilter}[which]
    with guard("filter %s" % which):
        flt = cls(**opts)
        modified = flt(f, gs)
    gi1 = R.glyph_index(SN.glyphset_to_spec(gs))
    if set(gi1) != set(gi0):
        raise Violation("filter added or removed glyphs", before=sorted(gi0), after=sorted(gi1))
    inc = opts.get("include")
    if which in ("decompose", "decomposeT", "flatten"):
        for n in names:
            if not cyc_close(canon(R.resolve(gi0, n)), canon(R.resolve(gi1, n))):
                raise Violation("resolved outline changed by the %s filter" % which, glyph=n, before=canon(R.resolve(gi0, n)), after=canon(R.resolve(gi1, n)))
        if which == "flatten":
            for n in names:
                if inc is not None and n not in inc:
                    continue
                g = gi1[n]
                if g["components"] and not g["contours"]:
                    for c in g["components"]:
                        b = gi1.get(c["base"])
                        if b and b["components"] and not b["contours"]:
                            raise Violation("nested pure composite remains after flattening", glyph=n, base=c["base"])
        if which == "decomposeT":
            for n in names:
                if inc is not None and n not in inc:
                    continue
                had = any(tuple(c["t"][:4]) != (1, 0, 0, 1) for c in gi0[n]["components"])
                changed = gi0[n] != gi1[n]
                if changed and not had:
                    raise Violation("decomposeTransformedComponents changed a glyph without transformed components", glyph=n)
                if had and gi1[n]["components"] and any(c["base"] in gi0 for c in gi0[n]["components"]):
                    raise Violation("glyph with a transformed component still has components", glyph=n, after=gi1[n]["components"])
        if which == "decompose":
            for n in names:
                if (inc is None or n in inc) and gi1[n]["components"] and all(c["base"] in gi0 for c in gi0[n]["components"]):
                    raise Violation("included glyph still has components after decomposeComponents", glyph=n)
    elif which == "transform":
        o = flt.options
        dx, dy = o.OffsetX, o.OffsetY
        cap = getAttrWithFallback(f.info, "capHeight")
        xh = getAttrWithFallback(f.info, "xHeight")
        oh = {4: 0, 0: cap, 1: R.ot_round(cap / 2), 2: xh, 3: R.ot_round(xh / 2)}[int(o.Origin)]
        sx, sy, ang = o.ScaleX / 100, o.ScaleY / 100, math.radians(o.Slant)
        M = R.IDENT
        if sx != 1 or sy != 1 or ang != 0:
            M = (1, 0, 0, 1, 0, -oh)
            M = R.compose((1, 0, math.tan(ang), 1, 0, 0), M)
            M = R.compose((sx, 0, 0, sy, 0, 0), M)
            M = R.compose((1, 0, 0, 1, 0, oh), M)
        M = R.compose((1, 0, 0, 1, dx, dy), M)

        def desc(n, seen=None):
            seen = set() if seen is None else seen
            for c in gi0[n]["components"]:
                if c["base"] in gi0 and c["base"] not in seen:
                    seen.add(c["base"])
                    desc(c["base"], seen)
            return seen

        def clean(n):
            if inc is None:
                return True
            return all(not (desc(x) & set(inc)) for x in desc(n) if x not in inc)

        both = False
        for n in names:
            included = inc is None or n in inc
            if included and not clean(n):
                ctx.count("transform-included-above-unincluded-intermediate")
                for a0, a1 in zip(gi0[n]["anchors"], gi1[n]["anchors"]):
                    x, y = R.apply(M, (a0["x"], a0["y"]))
                    if not (close(x, a1["x"]) and close(y, a1["y"])):
                        raise Violation("anchor of an included glyph not mapped by the requested matrix", glyph=n, anchor=a0["name"], got=[a1["x"], a1["y"]], expected=[x, y])
            elif included:
                if inc is not None and desc(n) & set(inc):
                    both = True
                # a mirroring matrix maps the points; whether the contour direction is then flipped back is not fixed by the statement
                if not cyc_close(canon(R.resolve(gi0, n)), canon(R.resolve(gi1, n)), M, any_direction=R.det(M) < 0):
                    raise Violation("resolved outline of an included glyph is not the source mapped by the requested matrix", glyph=n, matrix=list(M), options=case["opts"])
                if len(gi0[n]["anchors"]) != len(gi1[n]["anchors"]):
                    raise Violation("anchors added or removed by Transformations", glyph=n)
                for a0, a1 in zip(gi0[n]["anchors"], gi1[n]["anchors"]):
                    x, y = R.apply(M, (a0["x"], a0["y"]))
                    if a0["name"] != a1["name"] or not (close(x, a1["x"]) and close(y, a1["y"])):
                        raise Violation("anchor of an included glyph not mapped by the requested matrix", glyph=n, anchor=a0["name"], got=[a1["x"], a1["y"]], expected=[x, y])
                w = M[0] * gi0[n]["width"] + M[2] * gi0[n]["height"]
                h = M[1] * gi0[n]["width"] + M[3] * gi0[n]["height"]
                if M != R.IDENT and not (close(w, gi1[n]["width"]) and close(h, gi1[n]["height"])):
                    raise Violation("advance of an included glyph not mapped by the matrix's linear part", glyph=n, got=[gi1[n]["width"], gi1[n]["height"]], expected=[w, h])
                ctx.count("glyphs-transformed")
            else:
                # not included: its own data may only change through compensation of component offsets? no - C14: must be untouched
                if {k: v for k, v in gi0[n].items() if k != "components"} != {k: v for k, v in gi1[n].items() if k != "components"}:
                    raise Violation("glyph outside the include set changed", glyph=n)
        if both:
            ctx.label("base-and-composite-both-included")
    else:  # propagate
        for n, g0 in gi0.items():
            g1 = gi1[n]
            if g1["anchors"][: len(g0["anchors"])] != g0["anchors"]:
                raise Violation("existing anchors changed or reordered by PropagateAnchors", glyph=n, before=g0["anchors"], after=g1["anchors"])
            if {k: v for k, v in g1.items() if k != "anchors"} != {k: v for k, v in g0.items() if k != "anchors"}:
                raise Violation("PropagateAnchors changed non-anchor data", glyph=n)
            new = g1["anchors"][len(g0["anchors"]):]
            if new and n not in modified:
                raise Violation("glyph gained anchors but is not reported as modified", glyph=n)
            newnames = [a["name"] for a in new]
            if len(set(newnames)) != len(newnames) or set(newnames) & {a["name"] for a in g0["anchors"]}:
                raise Violation("propagated anchor duplicates an anchor name of the composite", glyph=n, existing=[a["name"] for a in g0["anchors"]], new=newnames)
            for a in new:
                ok = False
                for c in g1["components"]:
                    if c["base"] not in gi1:
                        continue
                    for ba in gi1[c["base"]]["anchors"]:
                        x, y = R.apply(tuple(c["t"]), (ba["x"], ba["y"]))
                        if close(x, a["x"]) and close(y, a["y"]) and (a["name"] == ba["name"] or a["name"].rsplit("_", 1)[0] == ba["name"]):
                            ok = True
                if not ok:
                    raise Violation("propagated anchor does not lie where a component maps an anchor of its base", glyph=n, anchor=a)
                ctx.count("new-anchors")
            if len(g0["components"]) == 1 and not g0["contours"] and g0["components"][0]["base"] in gi1:
                b = gi1[g0["components"][0]["base"]]
                if not any(x["name"].startswith("_") for x in b["anchors"]):
                    for ba in b["anchors"]:
                        if not any(x["name"].startswith(ba["name"]) for x in g0["anchors"]):
                            first = next(x for x in b["anchors"] if x["name"] == ba["name"])
                            x, y = R.apply(tuple(g0["components"][0]["t"]), (first["x"], first["y"]))
                            if not any(z["name"] == ba["name"] and close(z["x"], x) and close(z["y"], y) for z in g1["anchors"]):
                                raise Violation("single-component composite did not gain its base's anchor", glyph=n, anchor=ba["name"], expected=[x, y], after=g1["anchors"])
                            ctx.count("completeness-instances")
        snap = SN.glyphset_to_spec(gs)
        mod2 = PropagateAnchorsFilter()(f, gs)
        if SN.glyphset_to_spec(gs) != snap or mod2:
            raise Violation("second application of PropagateAnchors is not a no-op", reported=sorted(mod2))
    changed = {n for n in names if gi0.get(n) != gi1.get(n)}
    if not changed <= set(modified):
        raise Violation("changed glyphs missing from the returned set", filter=which, missing=sorted(changed - set(modified)))
    # classification
    memo = {}
    maxd = max([depth_of(gi0, n, memo) for n in names] or [0])
    if maxd >= 2:
        ctx.label("nesting>=2")
    if maxd >= 3:
        ctx.label("nesting>=3")
    if any(R.det(c["t"]) < 0 for g in gi0.values() for c in g["components"]):
        ctx.label("mirrored-component")
    nontrans = any(tuple(c["t"][:4]) != (1, 0, 0, 1) for g in gi0.values() for c in g["components"])
    ctx.label("filter=" + which)
    if which == "propagate" and "pmark" in gi0 and any(tuple(c["t"][:4]) != (1, 0, 0, 1) for n_, g_ in gi0.items() if n_.startswith("pacc") for c in g_["components"] if c["base"] in ("pmark", "pbelow")):
        ctx.label("propagate-through-transformed-mark-component")
    if inc is not None:
        ctx.label("include-list")
    ctx.nontrivial((maxd >= 2 and nontrans) or (which == "transform" and inc is not None and any(set(inc) & {c["base"] for c in gi0[n]["components"]} for n in inc if n in gi0)))


MANIFEST = {
    "technique": "property-based testing (Hypothesis) with an independent renderer as metamorphic oracle (render before filter == render after / mapped by a locally built matrix)",
    "text": "Generated component graphs and filter options; the filters are applied to a copied glyph set and the fully resolved contours, anchors and advances are "
    "compared before/after with an independent resolver; PropagateAnchors is checked with a validity predicate, a completeness clause and idempotence. "
    "Counterexample search only; no compilation involved, so thousands of cases per run.",
    "note": "Float tolerance 1e-6 relative. Transformations rendering clause restricted to include sets that are clean below the glyph.",
}
