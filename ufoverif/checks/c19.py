"""C19 - instances equal masters at master locations and the model's blend elsewhere."""
import copy

from hypothesis import strategies as st

from ufoverif import family as F, gen, refmodel as R, snapshot as SN, spec as S
from ufoverif.checks.c01 import extent
from ufoverif.runner import Discard, Violation, guard

ID = "C19"
RULE = (
    "case = compatible master family on one axis (2-4 masters incl. intermediate ones, optional axis map, optional sparse layer master for some glyphs) or two axes "
    "(four corner masters); line/cubic/quadratic outlines, composites, anchors, heights, per-master ascender, a glyph left empty in one non-default master (placeholder, skipped for that glyph as documented); kerning with group pairs, exceptions, pairs missing in some "
    "masters, a master without any kerning, pairs with both sides among two swapped glyphs; kerning and non-kerning groups; optional rule swapping two glyphs on a "
    "sub-range; round_geometry on/off; history = 1-4 generate_instance calls on ONE Instantiator at master locations, axis extremes and interior points in any order; "
    "oracle = local piecewise-linear / bilinear blend of the masters for every coordinate, advance, height, anchor, component offset, ascender and for the UFO-semantic "
    "lookup of every kerning pair in the union of master keys (rounded with floor(x+.5) when rounding is on); glyph set == default source's; when the rule fires the instance "
    "equals the rule-free instance with the two glyphs' outlines, widths, anchors, component/kerning/group references exchanged and code points kept; swapping twice "
    "restores the instance; source snapshots unchanged; the n-th call equals a fresh Instantiator's result; designspaces list their sources in either order and the first instance "
    "equals the one of the oppositely listed family. Non-trivial = a non-master location with an intermediate or "
    "sparse master, or a firing rule. Distinct = case hash."
)
ASSUMPTIONS = [
    "float tolerance 1e-6 (relative); with rounding on, +-1 is allowed only where the unrounded reference lies within 1e-6 of a rounding boundary",
    "the reference for one axis is piecewise-linear interpolation between adjacent masters, for two axes bilinear interpolation between four corner masters (what the OpenType variation model yields for these master layouts)",
]
N = {"quick": (8, 150), "thorough": (16, 900)}
FLOORS = {"rule-fires": 0.05, "non-master-location": 0.242, "intermediate-master": 0.12, "sparse-master": 0.05, "round_geometry": 0.103, "master-without-kerning": 0.03}  # a third of the measured frequency: a starving generator is a harness error, sampling noise is not


@st.composite
def _case(draw):
    spec = draw(gen.outline_font(max_glyphs=5, notdef=False).filter(lambda s: len(s["glyphs"]) >= 2))
    names = [g["name"] for g in spec["glyphs"]]
    for i, g in enumerate(spec["glyphs"]):
        g["width"] = abs(g.get("width", 0))
        g["height"] = draw(st.sampled_from([0, 1000, 880.5]))
        g["unicodes"] = [0x61 + i]
        g["anchors"] = [{"name": "top", "x": draw(st.integers(-100, 500)) / 4, "y": draw(st.integers(0, 800)) + 0.5}] if draw(st.booleans()) else []
    spec["info"].update({"ascender": 800, "descender": -200, "xHeight": 500, "capHeight": 700, "familyName": "Test", "styleName": "M"})
    a, b = names[0], names[1]
    spec["groups"] = {"public.kern1.g": names[:2], "public.kern2.g": names[-2:], "misc": [a, names[-1]], "other": [b]}
    val = st.one_of(st.integers(-80, 80), st.sampled_from([-10.5, 7.25]))
    kerning = [["public.kern1.g", "public.kern2.g", draw(val)]]
    for pair in draw(st.lists(st.sampled_from([(a, names[-1]), (a, b), (b, a), (a, a), (b, b), (a, "public.kern2.g"), ("public.kern1.g", b)]), unique=True, max_size=4)):
        kerning.append([pair[0], pair[1], draw(val)])
    spec["kerning"] = kerning
    shape = draw(st.sampled_from(["two", "three", "three", "four", "map", "2axes"]))
    axes = [{"name": "Weight", "tag": "wght", "minimum": 0, "default": 0, "maximum": 1000}]
    if shape == "two":
        locs = [0, 1000]
    elif shape == "three":
        locs = [0, 1000, draw(st.sampled_from([400, 500, 250]))]
    elif shape == "four":
        locs = [0, 1000, 300, 700]
    elif shape == "map":
        axes = [{"name": "Weight", "tag": "wght", "minimum": 100, "default": 400, "maximum": 900, "map": [[100, 0], [400, 320], [900, 1000]]}]
        locs = [320, 1000, 0]
    if shape == "2axes":
        axes.append({"name": "Width", "tag": "wdth", "minimum": 50, "default": 100, "maximum": 100, "map": [[50, 0], [100, 500]]})
        masters = [{"k": 0, "loc": {"Weight": 0, "Width": 500}}, {"k": 1, "loc": {"Weight": 1000, "Width": 500}}, {"k": 2, "loc": {"Weight": 0, "Width": 0}}, {"k": 3, "loc": {"Weight": 1000, "Width": 0}}]
    else:
        masters = [{"k": i, "loc": {"Weight": l}} for i, l in enumerate(locs)]
    fam = {"base": spec, "masters": masters, "axes": axes, "amp": draw(st.sampled_from([0.1, 1, 5])), "diff2x2": False}
    drop = {}
    for i in range(1, len(masters)):
        r = draw(st.integers(0, 5))
        if r == 0:
            drop[str(i)] = list(range(len(kerning)))  # a master without any kerning
        elif r <= 2:
            drop[str(i)] = draw(st.lists(st.integers(0, len(kerning) - 1), min_size=1, max_size=2, unique=True))
    if drop:
        fam["drop_kerning"] = drop
    if shape in ("two", "three") and draw(st.sampled_from([True, False, False])):
        simple = [g["name"] for g in spec["glyphs"] if not g.get("components")]
        if simple:
            fam["sparse"] = {"k": 6, "loc": {"Weight": draw(st.sampled_from([150, 650, 850]))}, "names": [draw(st.sampled_from(simple))]}
    if shape in ("three", "four") and draw(st.sampled_from([True, False, False])):
        # a glyph left completely empty in one non-default master: the instantiator documents that such a placeholder master is skipped for that glyph
        comp = [g["name"] for g in spec["glyphs"] if g.get("components")]
        tgt = draw(st.sampled_from(comp * 2 + [g["name"] for g in spec["glyphs"] if g.get("contours") or g.get("components")])) if any(g.get("contours") or g.get("components") for g in spec["glyphs"]) else None
        if tgt is not None and not (fam.get("sparse") and tgt in fam["sparse"]["names"]):
            fam["tweaks"] = [{"kind": "empty-glyph", "glyph": tgt, "master": draw(st.integers(2, len(masters) - 1))}]  # an interior master: the remaining ones still span the axis, so the reference stays piecewise linear
    if draw(st.sampled_from([True, False, False])):
        fam["listed_reversed"] = True  # the designspace lists its sources in the opposite order: the blend does not depend on the listing
    wmin, wmax = (0, 1000)
    if draw(st.booleans()):
        lo = draw(st.sampled_from([0, 300, 600]))
        fam["rules"] = [{"name": "r1", "conditionSets": [[{"name": "Weight", "minimum": lo, "maximum": 1000}]], "subs": [[a, b]]}]
    cand = sorted({m["loc"]["Weight"] for m in masters} | {0, 1000, 200, 700, 850, 123.4, 500, 250, 750})
    # ... and locations a hair's breadth away from a master (0.0004 of the axis): they are interpolated like any other location
    cand += [w for m in masters for w in (m["loc"]["Weight"] + 0.4, m["loc"]["Weight"] - 0.4) if 0 <= w <= 1000]
    hist = []
    for _ in range(draw(st.integers(1, 4))):
        loc = {"Weight": draw(st.sampled_from(cand))}
        if shape == "2axes":
            loc["Width"] = draw(st.sampled_from([0, 500, 250, 100.5]))
        hist.append(loc)
    return {"fam": fam, "module": draw(st.sampled_from(["ufoLib2", "defcon"])), "round": draw(st.booleans()), "history": hist, "shape": shape}


def strategy(tier):
    return _case()


def sample_view(case):
    fam = case["fam"]
    return {"module": case["module"], "round": case["round"], "history": case["history"], "masters": [m["loc"] for m in fam["masters"]], "sparse": fam.get("sparse"), "rules": fam.get("rules"),
            "drop_kerning": fam.get("drop_kerning"), "kerning": fam["base"]["kerning"], "groups": fam["base"]["groups"],
            "glyphs": [[g["name"], len(g.get("contours", [])), [c["base"] for c in g.get("components", [])]] for g in fam["base"]["glyphs"]]}


def close(a, b, eps=1e-6):
    return abs(a - b) <= eps * max(1, abs(a), abs(b))


def ufo_kern(kerning, groups, g1, g2):
    k = {(l, r): v for l, r, v in kerning}
    grp1 = grp2 = None
    for n, m in groups.items():
        if n.startswith("public.kern1.") and g1 in m:
            grp1 = n
        if n.startswith("public.kern2.") and g2 in m:
            grp2 = n
    for key in ((g1, g2), (g1, grp2), (grp1, g2), (grp1, grp2)):
        if None not in key and key in k:
            return k[key]
    return 0


def key_value(kerning, groups, key):
    """value of a kerning *key* (glyph or group on either side) in a master, with UFO fallback semantics"""
    k = {(l, r): v for l, r, v in kerning}
    l, r = key
    if (l, r) in k:
        return k[(l, r)]
    lg = l if l.startswith("public.kern1.") else next((n for n, m in groups.items() if n.startswith("public.kern1.") and l in m), None)
    rg = r if r.startswith("public.kern2.") else next((n for n, m in groups.items() if n.startswith("public.kern2.") and r in m), None)
    for cand in ((l, rg), (lg, r), (lg, rg)):
        if None not in cand and cand in k:
            return k[cand]
    return 0


def crossing(kerning, groups, key):
    """input class of KF-C19-1: the key is missing in this master while both one-sided exceptions (glyph, group2) and (group1, glyph)
    exist with different values - fontMath resolves (group1, glyph) first, UFO precedence says (glyph, group2)"""
    k = {(l, r): v for l, r, v in kerning}
    l, r = key
    if (l, r) in k or l.startswith("public.kern1.") or r.startswith("public.kern2."):
        return False
    lg = next((n for n, m in groups.items() if n.startswith("public.kern1.") and l in m), None)
    rg = next((n for n, m in groups.items() if n.startswith("public.kern2.") and r in m), None)
    return lg is not None and rg is not None and (l, rg) in k and (lg, r) in k and k[(l, rg)] != k[(lg, r)]


def blender(case, masters_locs):
    """-> f(values per master index) = blended value at a location; masters_locs: list of loc dicts (full masters [+ sparse])"""
    two = len(case["fam"]["axes"]) == 2

    def make(loc):
        if two:
            xs = sorted({m["Weight"] for m in masters_locs})
            ys = sorted({m["Width"] for m in masters_locs})
            u = min(max((loc["Weight"] - xs[0]) / (xs[-1] - xs[0]), 0), 1)
            v = min(max((loc["Width"] - ys[0]) / (ys[-1] - ys[0]), 0), 1)

            def f(vals):
                at = {(m["Weight"], m["Width"]): val for m, val in zip(masters_locs, vals)}
                return (1 - u) * (1 - v) * at[(xs[0], ys[0])] + u * (1 - v) * at[(xs[-1], ys[0])] + (1 - u) * v * at[(xs[0], ys[-1])] + u * v * at[(xs[-1], ys[-1])]

            return f
        t = loc["Weight"]

        def f(vals):
            pts = sorted(zip([m["Weight"] for m in masters_locs], vals))
            if t <= pts[0][0]:
                return pts[0][1]
            for (a, va), (b, vb) in zip(pts, pts[1:]):
                if a <= t <= b:
                    w = (t - a) / (b - a)
                    return (1 - w) * va + w * vb
            return pts[-1][1]

        return f

    return make


def rnd_ok(got, ref, rounding):
    if not rounding:
        return close(got, ref)
    r = R.ot_round(ref)
    if got == r:
        return True
    return abs(got - ref) <= 0.5 + 1e-6 and (R.near_half(ref, 1e-6))


def instance_state(font):
    gs = {g.name: g for g in font}
    gi = R.glyph_index(SN.glyphset_to_spec(gs))
    for n, g in gi.items():
        g.pop("lib", None)
    return {"glyphs": gi, "kerning": {k: v for k, v in font.kerning.items()}, "groups": {k: list(v) for k, v in font.groups.items()}}


def swap_state(state, a, b):
    """independent restatement of what a rule substitution a<->b does to an instance"""
    ren = lambda n: b if n == a else a if n == b else n
    out = copy.deepcopy(state)
    ga, gb = state["glyphs"][a], state["glyphs"][b]
    for dst, src in ((a, gb), (b, ga)):
        for k in ("contours", "components", "anchors", "width"):
            out["glyphs"][dst][k] = copy.deepcopy(src[k])
    for g in out["glyphs"].values():
        g["components"] = [{"base": ren(c["base"]), "t": c["t"]} for c in g["components"]]
    out["kerning"] = {(ren(l), ren(r)): v for (l, r), v in state["kerning"].items()}
    out["groups"] = {k: [ren(m) for m in v] for k, v in state["groups"].items()}
    return out


def rule_fires(fam, loc):
    for r in fam.get("rules", []):
        for cs in r["conditionSets"]:
            if all(c["minimum"] <= loc[c["name"]] <= c["maximum"] for c in cs):
                return r["subs"]
    return []


def run_case(case, ctx):
    from fontTools.designspaceLib import InstanceDescriptor
    from ufo2ft.instantiator import Instantiator, swap_glyph_names

    fam, rounding = case["fam"], case["round"]
    if extent(fam["base"]) > 8000:
        raise Discard("resolved coordinate beyond +-8000")
    module = S.ufo_module(case["module"])
    ds, fonts = F.build_designspace(fam, module)
    before = [SN.font_snapshot(f) for f in fonts]
    specs = F.master_specs(fam)
    # per-master info variation
    for i, f in enumerate(fonts):
        f.info.ascender = 800 + 25 * fam["masters"][i]["k"]
    before = [SN.font_snapshot(f) for f in fonts]
    with guard("Instantiator.from_designspace"):
        inst = Instantiator.from_designspace(ds, round_geometry=rounding)
    norule_fam = {k: v for k, v in fam.items() if k != "rules"}
    names = [g["name"] for g in specs[0]["glyphs"]]
    mlocs = [m["loc"] for m in fam["masters"]]
    make = blender(case, mlocs)
    sparse = fam.get("sparse")
    sparse_spec = F.perturb(fam["base"], sparse["k"], fam.get("amp", 1.0), False) if sparse else None
    groups = specs[0]["groups"]
    allkeys = sorted({(l, r) for sp in specs for l, r, v in sp["kerning"]})
    masterset = [tuple(sorted(m.items())) for m in mlocs]

    def make_instance(instantiator, loc):
        d = InstanceDescriptor()
        d.location = dict(loc)
        d.familyName = "Test"
        d.styleName = "I"
        return instantiator.generate_instance(d)

    for step, loc in enumerate(case["history"]):
        with guard("generate_instance"):
            font = make_instance(inst, loc)
        state = instance_state(font)
        if set(state["glyphs"]) != set(names):
            raise Violation("instance glyph set differs from the default source's", got=sorted(state["glyphs"]), expected=sorted(names))
        subs = rule_fires(fam, loc)
        # reference state without rules
        f = make(loc)
        ref_state = None
        if subs:
            ds2, fonts2 = F.build_designspace(norule_fam, module)
            for i, f2 in enumerate(fonts2):
                f2.info.ascender = 800 + 25 * fam["masters"][i]["k"]
            plain = make_instance(Instantiator.from_designspace(ds2, round_geometry=rounding), loc)
            ref_state = instance_state(plain)
            for x, y in subs:
                ref_state = swap_state(ref_state, x, y)
            if state != ref_state:
                diff = [n for n in names if state["glyphs"][n] != ref_state["glyphs"][n]]
                raise Violation("instance with a firing rule is not the rule-free instance with the two glyphs exchanged", location=loc, subs=subs, glyphs_differing=diff,
                                kerning_got={str(k): v for k, v in state["kerning"].items()}, kerning_expected={str(k): v for k, v in ref_state["kerning"].items()},
                                groups_got=state["groups"], groups_expected=ref_state["groups"])
            # code points are not swapped
            for n in names:
                if list(font[n].unicodes) != specs[0]["glyphs"][names.index(n)]["unicodes"]:
                    raise Violation("code points changed by a rule substitution", glyph=n)
            # swapping twice restores
            snap = instance_state(font)
            for x, y in subs:
                swap_glyph_names(font, x, y)
            for x, y in subs:
                swap_glyph_names(font, x, y)
            if instance_state(font) != snap:
                raise Violation("swapping two glyphs twice does not restore the instance", subs=subs)
            ctx.label("rule-fires")
            check_state = None  # numeric comparison below is done on the rule-free reference instead
            numeric = instance_state(plain)
        else:
            numeric = state
        # numeric blend
        for gi_, n in enumerate(names):
            g = numeric["glyphs"][n]
            ms = [sp["glyphs"][gi_] for sp in specs]
            locs_n = list(mlocs)
            for tw in fam.get("tweaks", []):
                if tw["kind"] == "empty-glyph" and tw["glyph"] == n:
                    # documented: an empty source glyph is skipped when the default's glyph is not empty
                    ms = [m for i_, m in enumerate(ms) if i_ != tw["master"]]
                    locs_n = [l for i_, l in enumerate(locs_n) if i_ != tw["master"]]
            if sparse and n in sparse["names"]:
                ms = ms + [next(x for x in sparse_spec["glyphs"] if x["name"] == n)]
                locs_n = locs_n + [sparse["loc"]]
            fn = blender(case, locs_n)(loc)

            def chk(what, got, vals):
                ref = fn(vals)
                if not rnd_ok(got, ref, rounding):
                    raise Violation("instance value differs from the blend of the masters", glyph=n, what=what, location=loc, got=got, reference=ref, masters=vals, round_geometry=rounding)

            chk("width", g["width"], [m.get("width", 0) for m in ms])
            chk("height", g["height"], [m.get("height", 0) for m in ms])
            for ci, c in enumerate(g["contours"]):
                for pi, p in enumerate(c):
                    for k in (0, 1):
                        chk("point", p[k], [m["contours"][ci][pi][k] for m in ms])
            for ci, c in enumerate(g["components"]):
                for k in range(6):
                    ref = fn([m["components"][ci]["t"][k] for m in ms])
                    if not (close(c["t"][k], ref) if k < 4 else rnd_ok(c["t"][k], ref, rounding)):
                        raise Violation("component transformation differs from the blend of the masters", glyph=n, component=ci, index=k, got=c["t"][k], reference=ref)
            for ai, a_ in enumerate(g["anchors"]):
                chk("anchor-x", a_["x"], [m["anchors"][ai]["x"] for m in ms])
                chk("anchor-y", a_["y"], [m["anchors"][ai]["y"] for m in ms])
            ctx.count("glyph-values-checked")
        # kerning: every key in the union of master keys, with fallback semantics per master
        ik = [[l, r, v] for (l, r), v in numeric["kerning"].items()]
        for key in allkeys:
            if any(crossing(sp["kerning"], groups, key) for sp in specs) and not case.get("no_exclusions"):
                ctx.count("kerning-keys-in-known-finding-class(KF-C19-1)")
                continue
            ref = f([key_value(sp["kerning"], groups, key) for sp in specs])
            got = key_value(ik, numeric["groups"], key)
            if not rnd_ok(got, ref, rounding):
                raise Violation("instance kerning differs from the blend of the masters' kerning", pair=list(key), location=loc, got=got, reference=ref,
                                master_values=[key_value(sp["kerning"], groups, key) for sp in specs], round_geometry=rounding)
            ctx.count("kerning-keys-checked")
        asc = f([800 + 25 * m["k"] for m in fam["masters"]])
        if not rnd_ok(font.info.ascender, asc, True) and not close(font.info.ascender, asc):
            raise Violation("instance ascender differs from the blend of the masters", got=font.info.ascender, reference=asc)
        if case["shape"] == "two" and loc["Weight"] in (250, 500, 750) and float(asc * 4).is_integer():
            # two integer masters blended with a dyadic weight: the blend is exact in binary floating point, so a half is a half - rounded up
            if font.info.ascender not in (asc, R.ot_round(asc)):
                raise Violation("instance font info is not rounded half-up", field="ascender", got=font.info.ascender, exact_blend=asc)
            if asc != int(asc):
                ctx.label("info-value-exactly-on-a-half")
        # history independence
        ds3, fonts3 = F.build_designspace(fam, module)
        for i, f3 in enumerate(fonts3):
            f3.info.ascender = 800 + 25 * fam["masters"][i]["k"]
        fresh = make_instance(Instantiator.from_designspace(ds3, round_geometry=rounding), loc)
        if instance_state(fresh) != instance_state(make_instance(inst, loc)) or instance_state(fresh) != state:
            raise Violation("instance generated by a used Instantiator differs from a fresh Instantiator's", call_index=step, location=loc)
        if step == 0 and not rounding:
            # the same family with its sources listed in the opposite order gives the same instance (the blend does not depend on the listing)
            from ufoverif.checks.c14 import approx_equal

            ds4, fonts4 = F.build_designspace(dict(fam, listed_reversed=not fam.get("listed_reversed")), module)
            for i, f4 in enumerate(fonts4):
                f4.info.ascender = 800 + 25 * fam["masters"][i]["k"]
            other = instance_state(make_instance(Instantiator.from_designspace(ds4, round_geometry=rounding), loc))
            if not approx_equal(other, state, 1e-6):
                diff = sorted(n for n in set(state["glyphs"]) | set(other["glyphs"]) if not approx_equal(state["glyphs"].get(n), other["glyphs"].get(n), 1e-6))
                raise Violation("instance depends on the order in which the designspace lists its sources", location=loc, glyphs_differing=diff, kerning_differs=not approx_equal(other["kerning"], state["kerning"], 1e-6))
            ctx.count("listing-order-comparisons")
        after = [SN.font_snapshot(x) for x in fonts]
        if after != before:
            k = next(i for i, (x, y) in enumerate(zip(before, after)) if x != y)
            raise Violation("generating an instance modified a source", master=k, changed_parts=SN.diff_parts(before[k], after[k]), call_index=step)
        if tuple(sorted(loc.items())) in masterset:
            ctx.label("master-location")
        else:
            ctx.label("non-master-location")
            if any(abs(loc["Weight"] - m["Weight"]) < 1 and all(loc.get(k_) == v_ for k_, v_ in m.items() if k_ != "Weight") for m in mlocs):
                ctx.label("location-next-to-a-master")
    nfull = len(fam["masters"])
    if nfull > 2 ** len(fam["axes"]):
        ctx.label("intermediate-master")
    if sparse:
        ctx.label("sparse-master")
    if any(t["kind"] == "empty-glyph" for t in fam.get("tweaks", [])):
        ctx.label("empty-placeholder-glyph-in-a-master")
        if any(t["kind"] == "empty-glyph" and any(g["name"] == t["glyph"] and g.get("components") for g in fam["base"]["glyphs"]) for t in fam["tweaks"]):
            ctx.label("empty-placeholder-of-a-composite")
    if rounding:
        ctx.label("round_geometry")
    if any(len(v) == len(specs[0]["kerning"]) for v in (fam.get("drop_kerning") or {}).values()):
        ctx.label("master-without-kerning")
    ctx.label("shape=" + case["shape"])
    if fam.get("listed_reversed"):
        ctx.label("sources-listed-in-reverse")
    nonmaster = any(tuple(sorted(l.items())) not in masterset for l in case["history"])
    ctx.nontrivial((nonmaster and (nfull > 2 ** len(fam["axes"]) or bool(sparse))) or any(rule_fires(fam, l) for l in case["history"]))


MANIFEST = {
    "technique": "property-based stateful testing (Hypothesis): generated instance histories on one Instantiator vs a local interpolation reference, a rule-swap reference model and fresh-object differential",
    "text": "Generated families, rules and sequences of generate_instance calls; every numeric value of every instance is compared with a locally computed blend of the masters, "
    "kerning through UFO lookup semantics, rule substitutions against an independent restatement applied to the rule-free instance, sources against deep snapshots and each "
    "call against a fresh Instantiator. Counterexample search only.",
    "note": "Reference interpolation is piecewise-linear (one axis) or bilinear (four corner masters): the OpenType variation model's result for these layouts.",
}
