"""C17 - automatic features only add to the user's feature file."""
import io
import re

from hypothesis import strategies as st

from ufoverif import spec as S
from ufoverif.runner import Discard, Violation, guard

ID = "C17"
RULE = (
    "case = feature file assembled from a grammar (languagesystem statements, class definitions, named lookups, GSUB features incl. lookupflag / mark filtering, "
    "hand-written kern / mark / mkmk / curs / abvm / blwm blocks with the '# Automatic Code' marker at the top, middle, bottom, alone, directly before the single last rule, "
    "mis-cased or absent, nested in a lookup, empty blocks, one tag split over two blocks (marker in one), comments, optional table GDEF with glyph classes and/or ligature carets by position / by index) on a fixed font that gives every writer work (Latin, Arabic, Devanagari glyphs with top/bottom/cursive anchors, "
    "kerning) x writer list (default | lib-specified | explicit with ellipsis | append mode | explicit list with a harness-defined GSUB writer placed last) x {ufoLib2, defcon}; "
    "oracle = debug feature file parsed back with feaLib: the user's non-comment statements form a subsequence of the output (same block path, kind and text); GSUB bytes "
    "identical with writers on and off; a hand-written feature without marker is neither duplicated nor changed in GPOS; with a marker the generated statements of that "
    "feature lie between the user's statements before and after the marker (a marker-only block is replaced where it stands; as much is generated as without a marker-less twin block); "
    "a hand-written abvm / blwm / kern / dist leaves its sibling feature as it is generated without the hand-written block; every GSUB writer runs before every other writer. Non-trivial = a hand-written GPOS feature has a "
    "marker that is not at the edge of its block, or a sibling feature of the same writer is hand-written without marker. Distinct = case hash."
)
ASSUMPTIONS = [
    "feaLib's parser is used on both sides only to normalise text into (block path, statement kind, asFea) triples",
    "a block that consists only of comments and a marker is replaced wholesale by the generated one (documented); comments are not part of the obligation",
    "feature text that feaLib rejects for reasons unrelated to the writers (FeatureLibError with writers off as well) is discarded and counted",
]
N = {"quick": (8, 200), "thorough": (16, 1000)}
FLOORS = {"marker-in-the-middle": 0.04, "hand-written-without-marker": 0.15, "marker-present": 0.12, "indic-handwritten": 0.05}  # a third of the measured frequency: a starving generator is a harness error, sampling noise is not

GL = ["A", "B", "V", "a", "a.alt", "f_i", "period", "acutecomb", "gravecomb", "alef-ar", "beh-ar", "ka-deva", "kha-deva", "anusvara-deva", "nukta-deva"]
U = {"A": 0x41, "B": 0x42, "V": 0x56, "a": 0x61, "period": 0x2E, "acutecomb": 0x301, "gravecomb": 0x300, "alef-ar": 0x627, "beh-ar": 0x628,
     "ka-deva": 0x915, "kha-deva": 0x916, "anusvara-deva": 0x902, "nukta-deva": 0x93C}
TRI = [[0, 0, "line"], [100, 0, "line"], [100, 100, "line"]]


def base_spec():
    glyphs = []
    for n in GL:
        g = {"name": n, "width": 0 if ("comb" in n or n in ("anusvara-deva", "nukta-deva")) else 500, "unicodes": [U[n]] if n in U else [], "contours": [TRI], "anchors": []}
        if n in ("A", "B", "a", "alef-ar"):
            g["anchors"] = [{"name": "top", "x": 250, "y": 700}]
        if "comb" in n:
            g["anchors"] = [{"name": "_top", "x": 0, "y": 600}, {"name": "top", "x": 0, "y": 800}]
        if n == "beh-ar":
            g["anchors"] = [{"name": "entry", "x": 500, "y": 0}, {"name": "exit", "x": 0, "y": 0}]
        if n == "f_i":
            g["anchors"] = [{"name": "top_1", "x": 100, "y": 700}, {"name": "top_2", "x": 300, "y": 700}, {"name": "caret_1", "x": 250, "y": 0}]
        if n in ("ka-deva", "kha-deva"):
            g["anchors"] = [{"name": "top", "x": 300, "y": 650}, {"name": "bottom", "x": 300, "y": -20}]
        if n == "anusvara-deva":
            g["anchors"] = [{"name": "_top", "x": 0, "y": 600}]
        if n == "nukta-deva":
            g["anchors"] = [{"name": "_bottom", "x": 0, "y": 0}]
        glyphs.append(g)
    return {"info": {"unitsPerEm": 1000}, "glyphs": glyphs, "kerning": [["A", "V", -50], ["alef-ar", "beh-ar", -20], ["period", "period", -5], ["ka-deva", "kha-deva", -11]],
            "lib": {"public.openTypeCategories": {"acutecomb": "mark", "gravecomb": "mark", "anusvara-deva": "mark", "nukta-deva": "mark", "A": "base", "f_i": "ligature", "ka-deva": "base", "kha-deva": "base"}}}


MARKER = ["# Automatic Code", "# Automatic Code Start", "#automatic code", "# automatic Code", None, None, "## Automatic Code", "# disabled: # Automatic Code"]  # the last two only mention the marker
RULES = {
    "kern": ["pos A B -40;", "pos B A 10;"],
    "dist": ["pos ka-deva kha-deva -40;", "pos kha-deva ka-deva 10;"],
    "mark": ["pos base B <anchor 1 2> mark @UM;", "pos base V <anchor 3 4> mark @UM;"],
    "mkmk": ["pos mark acutecomb <anchor 0 900> mark @UM;", "pos mark gravecomb <anchor 0 901> mark @UM;"],
    "curs": ["pos cursive alef-ar <anchor 1 2> <anchor NULL>;", "pos cursive beh-ar <anchor 3 4> <anchor 5 6>;"],
    "abvm": ["pos base kha-deva <anchor 9 9> mark @UM;", "pos base ka-deva <anchor 8 8> mark @UM;"],
    "blwm": ["pos base kha-deva <anchor 7 -7> mark @UM;", "pos base ka-deva <anchor 6 -6> mark @UM;"],
}
GPOS_TAGS = list(RULES)


@st.composite
def fea(draw):
    out = []
    if draw(st.booleans()):
        out.append("languagesystem DFLT dflt;")
        for t in draw(st.lists(st.sampled_from(["latn", "arab", "dev2"]), unique=True, max_size=2)):
            out.append("languagesystem %s dflt;" % t)
    if draw(st.booleans()):
        out.append("@UC = [A B V];")
    if draw(st.booleans()):
        out.append("lookup foo { sub a by a.alt; } foo;")
    blocks = draw(st.lists(st.sampled_from(["liga", "salt", "ss01", "gdef"] + GPOS_TAGS), unique=True, max_size=6))
    meta = {}
    for bname in blocks:
        if bname == "liga":
            out.append("feature liga { sub A B by f_i; } liga;")
        elif bname == "salt":
            out.append("feature salt { lookupflag IgnoreMarks; sub a by a.alt; } salt;")
        elif bname == "ss01":
            out.append("feature ss01 { sub a by a.alt; } ss01;")
        elif bname == "gdef":
            gd = draw(st.sampled_from(["classes", "classes", "classes+bypos", "byindex", "bypos", "classes+byindex"]))
            body = []
            if "classes" in gd:
                body.append("GlyphClassDef [A B V a ka-deva kha-deva], [f_i], [acutecomb gravecomb anusvara-deva nukta-deva], ;")
            if "bypos" in gd:
                body.append("LigatureCaretByPos f_i 240;")
            if "byindex" in gd:
                body.append("LigatureCaretByIndex f_i 1;")
            out.append("table GDEF { %s } GDEF;" % " ".join(body))
            meta["GDEF"] = {"marker": None, "pos": None, "body": body, "kind": gd}
        else:
            rule = RULES[bname]
            if "@UM" in " ".join(rule) and "markClass acutecomb <anchor 0 1> @UM;" not in out:
                out.insert(0, "markClass acutecomb <anchor 0 1> @UM;")
            m = draw(st.sampled_from(MARKER))
            pos = draw(st.sampled_from(["top", "middle", "bottom", "alone", "before-single-last"]))
            body = list(rule)
            if m is not None:
                if pos == "top":
                    body = [m] + body
                elif pos == "bottom":
                    body = body + [m]
                elif pos == "middle":
                    body = [body[0], m, body[1]]
                elif pos == "before-single-last":
                    body = [m, body[0]] if draw(st.booleans()) else [body[0], m, body[1]]
                else:
                    body = [m]
            if m is not None and draw(st.integers(0, 5)) == 0:
                # the marker text inside a named lookup nested in the feature: only a direct child of the feature block is an insertion marker
                body = ["lookup user_%s {" % bname, "    " + m] + ["    " + r for r in rule] + ["} user_%s;" % bname]
                m = None
                pos = "nested"
            if m is None and draw(st.integers(0, 5)) == 0:
                body = []  # an empty block: the usual way to switch an automatic feature off
            elif draw(st.integers(0, 4)) == 0:
                body = ["# a comment"] + body
            out.append("feature %s {\n    %s\n} %s;" % (bname, "\n    ".join(body), bname))
            meta[bname] = {"marker": m, "pos": pos if m is not None else None, "body": body}
            if m is not None and pos != "nested" and draw(st.integers(0, 5)) == 0:
                # the same tag split over two top-level blocks, only one of which carries the marker: the feature is still generated (at the marker)
                other = "feature %s {\n    %s\n} %s;" % (bname, rule[1], bname)
                if draw(st.booleans()):
                    out.append(other)
                else:
                    out.insert(len(out) - 1, other)
                meta[bname]["split"] = other
    return {"text": "\n".join(out) + "\n", "blocks": meta}


@st.composite
def _case(draw):
    f = draw(fea())
    return {"text": f["text"], "blocks": f["blocks"], "module": draw(st.sampled_from(["ufoLib2", "defcon"])),
            "writers": draw(st.sampled_from(["default", "default", "lib", "ellipsis", "append", "gsub-last", "ellipsis-first"]))}


def strategy(tier):
    return _case()


def sample_view(case):
    return {"module": case["module"], "writers": case["writers"], "text": case["text"]}


def leaves(text, glyphs):
    from fontTools.feaLib.parser import Parser

    doc = Parser(io.StringIO(text), glyphs).parse()
    res = []

    def walk(st_, path):
        for x in st_.statements:
            if hasattr(x, "statements"):
                walk(x, path + ((type(x).__name__, getattr(x, "name", None)),))
            else:
                res.append((path, type(x).__name__, x.asFea()))

    walk(doc, ())
    return res


MARKER_RE = re.compile(r"\s*# Automatic Code.*")


def raw(t, tag):
    from fontTools.ttLib import TTFont

    b = io.BytesIO()
    t.save(b)
    r = TTFont(io.BytesIO(b.getvalue()))
    return (r.reader[tag] if tag in r.reader else None), r


def feature_xml(t, tag):
    """serialised lookups of every GPOS feature record with this tag (independent of lookup indices)"""
    from fontTools.misc.xmlWriter import XMLWriter

    if "GPOS" not in t or t["GPOS"].table.FeatureList is None:
        return []
    gp = t["GPOS"].table
    out = []
    for fr in gp.FeatureList.FeatureRecord:
        if fr.FeatureTag != tag:
            continue
        for li in fr.Feature.LookupListIndex:
            b = io.BytesIO()
            w = XMLWriter(b)
            gp.LookupList.Lookup[li].toXML(w, t)
            w.close()
            out.append(re.sub(rb'index="\d+"', b"", b.getvalue()))
    return sorted(set(out))


def run_case(case, ctx):
    import ufo2ft
    from fontTools.feaLib.error import FeatureLibError
    from ufo2ft.featureWriters import BaseFeatureWriter, CursFeatureWriter, GdefFeatureWriter, KernFeatureWriter, MarkFeatureWriter, ast

    text = case["text"]
    spec = base_spec()
    spec["features"] = text
    gl = set(GL)
    try:
        user = leaves(text, gl)
    except FeatureLibError:
        raise Discard("user feature text does not parse")
    module = S.ufo_module(case["module"])
    calls = []
    kw = {}
    mode = case["writers"]
    if mode == "lib":
        spec["lib"]["com.github.googlei18n.ufo2ft.featureWriters"] = [{"class": "KernFeatureWriter"}, {"class": "MarkFeatureWriter"}, {"class": "GdefFeatureWriter"}, {"class": "CursFeatureWriter"}]
    elif mode == "ellipsis":
        kw["featureWriters"] = [KernFeatureWriter(quantization=1), ...]
    elif mode == "append":
        kw["featureWriters"] = [KernFeatureWriter(mode="append"), MarkFeatureWriter(mode="append"), GdefFeatureWriter(), CursFeatureWriter(mode="append")]
    elif mode in ("gsub-last", "ellipsis-first"):
        class RecKern(KernFeatureWriter):
            def write(self, font, feaFile, compiler=None):
                calls.append(("GPOS", "kern"))
                return super().write(font, feaFile, compiler=compiler)

        class RecMark(MarkFeatureWriter):
            def write(self, font, feaFile, compiler=None):
                calls.append(("GPOS", "mark"))
                return super().write(font, feaFile, compiler=compiler)

        class HarnessGsub(BaseFeatureWriter):
            tableTag = "GSUB"
            features = frozenset(["ss20"])

            def write(self, font, feaFile, compiler=None):
                calls.append(("GSUB", "ss20"))
                return super().write(font, feaFile, compiler=compiler)

            def _write(self):
                fb = ast.FeatureBlock("ss20")
                fb.statements.append(ast.SingleSubstStatement([ast.GlyphName("B")], [ast.GlyphName("a.alt")], [], [], False))
                self.context.feaFile.statements.append(fb)
                return True

        kw["featureWriters"] = [RecKern(), RecMark(), GdefFeatureWriter(), CursFeatureWriter(), HarnessGsub()]
        if mode == "ellipsis-first":
            # the default (or lib) writers first, then one more writer of the caller's
            kw["featureWriters"] = [..., HarnessGsub()]
    s = io.StringIO()
    try:
        with guard("compile without writers", allowed=(FeatureLibError,)):
            t0 = ufo2ft.compileTTF(S.build(spec, module), useProductionNames=False, featureWriters=[])
    except FeatureLibError:
        raise Discard("feature text rejected by feaLib even without writers")
    with guard("compile with writers"):
        t1 = ufo2ft.compileTTF(S.build(spec, module), useProductionNames=False, debugFeatureFile=s, **kw)
    out = leaves(s.getvalue(), gl | {"a.alt"})
    # 1. subsequence
    it = iter(enumerate(out))
    positions = []
    for x in user:
        if x[1] == "Comment":
            continue
        for j, y in it:
            if x == y:
                positions.append((x, j))
                break
        else:
            raise Violation("a statement of the user's feature file is missing, changed or out of order in the compiled feature source", statement=list(x), writers=mode)
    # 2. GSUB invariance
    g1, r1 = raw(t1, "GSUB")
    g0, r0 = raw(t0, "GSUB")
    if mode not in ("gsub-last", "ellipsis-first") and g1 != g0:
        raise Violation("GSUB differs with and without the automatic writers", writers=mode)
    # 3./4. hand-written GPOS features
    appendmode = mode == "append"
    nontriv = False
    for tag, b in case["blocks"].items():
        if tag == "GDEF":
            # a hand-written GDEF table: what it defines (glyph classes, ligature carets - in either the ByPos or the ByIndex form) is left alone
            ctx.label("hand-written-GDEF:" + b["kind"])
            gd0, gd1 = r0["GDEF"].table if "GDEF" in r0 else None, r1["GDEF"].table if "GDEF" in r1 else None

            def carets(gd):
                if gd is None or gd.LigCaretList is None:
                    return None
                return [(g, [(cv.Format, getattr(cv, "Coordinate", None), getattr(cv, "CaretValuePoint", None)) for cv in lg.CaretValue]) for g, lg in zip(gd.LigCaretList.Coverage.glyphs, gd.LigCaretList.LigGlyph)]

            if "by" in b["kind"] and carets(gd0) != carets(gd1):
                raise Violation("ligature carets of a hand-written GDEF table were changed or duplicated by the automatic writers", kind=b["kind"], without_writers=carets(gd0), with_writers=carets(gd1), writers=mode)
            if "classes" in b["kind"] and (gd0.GlyphClassDef.classDefs if gd0 is not None and gd0.GlyphClassDef else None) != (gd1.GlyphClassDef.classDefs if gd1 is not None and gd1.GlyphClassDef else None):
                raise Violation("glyph classes of a hand-written GDEF table were changed by the automatic writers", writers=mode)
            if len(re.findall(r"table GDEF \{", s.getvalue())) != 1:
                raise Violation("hand-written GDEF table was duplicated", blocks=len(re.findall(r"table GDEF \{", s.getvalue())))
            nontriv = nontriv or "by" in b["kind"]
            continue
        is_marker = b["marker"] is not None and MARKER_RE.match(b["marker"])
        nuser_blocks = sum(1 for p, k, t_ in user if False) or len(re.findall(r"feature %s \{" % tag, text))
        out_blocks = len(re.findall(r"feature %s \{" % tag, s.getvalue()))
        in_out = [(j, y) for j, y in enumerate(out) if y[0] and y[0][0] == ("FeatureBlock", tag) and y[1] != "Comment"]
        userpos = {j for x, j in positions if x[0] and x[0][0] == ("FeatureBlock", tag)}
        generated = [j for j, y in in_out if j not in userpos]
        if not is_marker and not appendmode:
            ctx.label("hand-written-without-marker")
            if generated:
                raise Violation("a hand-written feature without the marker received generated statements", feature=tag, generated=[list(out[j]) for j in generated[:3]], writers=mode)
            if out_blocks != nuser_blocks:
                raise Violation("a hand-written feature without the marker was duplicated", feature=tag, blocks_in_output=out_blocks, blocks_in_user_text=nuser_blocks)
            if feature_xml(r1, tag) != feature_xml(r0, tag):
                raise Violation("GPOS feature of a hand-written block without the marker differs from the compile without writers", feature=tag, writers=mode)
            if any((bb["marker"] is not None and MARKER_RE.match(bb["marker"])) for t2, bb in case["blocks"].items() if t2 != tag):
                nontriv = True
        elif is_marker and not appendmode:
            ctx.label("marker-present")
            body = b["body"]
            mi = body.index(b["marker"])
            nb = len([x for x in body[:mi] if not x.startswith("#")])
            na = len([x for x in body[mi + 1:] if not x.startswith("#")])
            upos = sorted(j for x, j in positions if x[0] and x[0][0] == ("FeatureBlock", tag))
            if b.get("split"):
                # the tag is split over two top-level blocks and only one carries the marker: as much is generated as without the marker-less block
                ctx.label("tag-split-over-two-blocks")
                if len(upos) != nb + na + 1:
                    raise Violation("user statements of a feature with a marker are missing from the output", feature=tag, found=len(upos), expected=nb + na + 1)
                if mode in ("default", "lib", "ellipsis"):
                    spec2 = base_spec()
                    spec2["features"] = text.replace(b["split"] + "\n", "", 1)
                    if mode == "lib":
                        spec2["lib"]["com.github.googlei18n.ufo2ft.featureWriters"] = spec["lib"]["com.github.googlei18n.ufo2ft.featureWriters"]
                    s2 = io.StringIO()
                    with guard("compile with writers, marker-less twin block removed"):
                        ufo2ft.compileTTF(S.build(spec2, module), useProductionNames=False, debugFeatureFile=s2, **({"featureWriters": [KernFeatureWriter(quantization=1), ...]} if mode == "ellipsis" else {}))
                    n2 = len([y for y in leaves(s2.getvalue(), gl | {"a.alt"}) if y[0] and y[0][0] == ("FeatureBlock", tag) and y[1] != "Comment"]) - (nb + na)
                    if len(generated) != n2:
                        raise Violation("a second, marker-less block of the same tag changed what is generated at the marker", feature=tag, generated_statements=len(generated), without_the_second_block=n2, writers=mode)
                continue
            if len(upos) != nb + na:
                raise Violation("user statements of a feature with a marker are missing from the output", feature=tag, found=len(upos), expected=nb + na)
            before, after = upos[:nb], upos[nb:]
            if generated:
                if before and not max(before) < min(generated):
                    raise Violation("generated statements are not placed after the user's statements that precede the marker", feature=tag, position=b["pos"], body=body)
                if after and not max(generated) < min(after):
                    raise Violation("generated statements are not placed before the user's statements that follow the marker", feature=tag, position=b["pos"], body=body)
            if nb and na:
                ctx.label("marker-in-the-middle")
                nontriv = True
            if generated and nb == 0 and na == 0:
                # a block holding nothing but the marker is replaced where it stands: the generated feature statements come after every user statement
                # that precedes the block in the feature file and before every one that follows it
                i0 = next((i for i, x in enumerate(user) if x[0] and x[0][0] == ("FeatureBlock", tag) and x[1] == "Comment"), None)
                if i0 is not None:
                    upos = {id(x): j for x, j in positions}
                    before_u = [upos[id(x)] for x in user[:i0] if id(x) in upos]
                    after_u = [upos[id(x)] for x in user[i0 + 1:] if id(x) in upos]
                    if (before_u and max(before_u) > min(generated)) or (after_u and min(after_u) < max(generated)):
                        raise Violation("the feature generated for a marker-only block is not placed where the block stood", feature=tag,
                                        statements_before=len(before_u), statements_after=len(after_u), writers=mode)
                    ctx.label("marker-only-block-position-checked")
    # 4b. abvm and blwm are generated independently of each other: writing one by hand leaves the other as it is generated without the hand-written block
    sibling = {"abvm": "blwm", "blwm": "abvm", "kern": "dist", "dist": "kern"}  # (kern / dist likewise: one writer, two features)
    todo_tags = [sibling[t_] for t_ in case["blocks"] if t_ in sibling and sibling[t_] not in case["blocks"]]
    if mode == "default" and todo_tags and not (set(case["blocks"]) - {"abvm", "blwm", "kern", "dist", "curs"}):
        keep = [ln for ln in re.split(r"(?<=;)\n(?=feature |table |lookup |markClass |@|languagesystem )", text)]
        stripped = "\n".join(b_ for b_ in keep if not re.match(r"feature (%s) \{" % "|".join(GPOS_TAGS), b_) and not b_.startswith("table GDEF"))
        spec_b = base_spec()
        spec_b["features"] = stripped + "\n"
        try:
            with guard("compile with writers, hand-written positioning blocks removed", allowed=(FeatureLibError,)):
                tb = ufo2ft.compileTTF(S.build(spec_b, module), useProductionNames=False)
            rb = raw(tb, "GPOS")[1]
        except FeatureLibError:
            rb = None
        if rb is not None:
            for tag in todo_tags:  # a hand-written abvm must not keep blwm from being generated, and vice versa
                if feature_xml(r1, tag) != feature_xml(rb, tag):
                    raise Violation("a generated feature that the user did not write differs from what is generated without the hand-written blocks", feature=tag,
                                    handwritten=sorted(case["blocks"]), writers=mode)
            ctx.count("unwritten-features-compared-with-baseline")
    # 5. writer order
    if mode == "ellipsis-first" and ("GSUB", "ss20") not in calls:
        raise Violation("a writer listed after the ellipsis was not called", call_order=calls)
    if mode == "gsub-last":
        order = [c[0] for c in calls]
        if "GSUB" in order and order.index("GSUB") != 0:
            raise Violation("a GSUB feature writer ran after a GPOS writer", call_order=calls)
        if "GSUB" not in order:
            raise Violation("the harness GSUB writer was not called", call_order=calls)
        ctx.label("gsub-writer-order-checked")
    if any(t in case["blocks"] for t in ("abvm", "blwm", "dist")):
        ctx.label("indic-handwritten")
    ctx.label("writers=" + mode)
    ctx.nontrivial(nontriv)


MANIFEST = {
    "technique": "property-based testing (Hypothesis) with a grammar-based feature-file generator; subsequence / differential / ordering oracles over the parsed debug feature file and the compiled GSUB/GPOS",
    "text": "Generated feature files with markers in every position; the compiled feature source is parsed back and must contain the user's statements as a subsequence; GSUB bytes "
    "with writers on and off are compared; hand-written GPOS features without marker must be neither duplicated nor changed, with a marker generated rules must sit at the "
    "marker; a harness-defined GSUB writer placed last must still run first. Counterexample search only.",
    "note": "feaLib's parser is used only to normalise text on both sides. A coverage-guided atheris target was not built: the grammar is small and the Hypothesis generator reaches every production (class histogram in the evidence).",
}
