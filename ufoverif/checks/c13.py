"""C13 - non-exported glyphs vanish without altering the remaining glyphs."""
import copy
import io
import itertools

from hypothesis import strategies as st

from ufoverif import family as F, gen, geom, otl, otread, refmodel as R, spec as S
from ufoverif.checks import c02, c05
from ufoverif.checks.c01 import extent, match
from ufoverif.runner import Discard, Violation, guard

ID = "C13"
RULE = (
    "case = one of four modes. static-outline: font with component DAG (skipped bases at any depth, skipped inside skipped, mirrored references), skip list by "
    "argument or UFO lib, TTF/OTF, optionally compiled from a non-default layer in which the skipped glyph is drawn differently. static-layout: multi-script "
    "kerning font (groups, kerning keys and categories naming skipped glyphs). masters-union: compileInterpolatableTTFs on 2-3 UFOs whose lib skip lists differ. "
    "variable-sparse: 2-4 master designspace (one axis, or two with the second axis' default at design coordinate 0) with one or two sparse intermediate layer masters for a skipped glyph nested inside another skipped glyph, skip list in the "
    "designspace lib. Oracle = compile with and without the skip list: skipped names absent from glyph order, cmap, hmtx, GPOS coverages/classes; remaining glyphs keep "
    "relative order and advance; OTF outlines equal contour by contour (as a set; +-1 only at rounding boundaries under inexact transforms), TTF outlines within the "
    "C02 bound of the source shape and point-for-point within 1 unit when no cubic is involved; kerning of in-run pairs (adjacent, and with a remaining non-spacing mark in between) and mark attachments between remaining "
    "glyphs equal, and (when no remaining glyph uses a skipped one as component) GPOS and GDEF byte-identical to a compile of sources that never had the skipped glyphs; "
    "masters: union of the lists is skipped everywhere and every master renders its own pruned source; variable: remaining glyphs render equally at master and intermediate locations (tolerance 2 units). "
    "Non-trivial = a skipped glyph is used as a component by a remaining glyph, or is a member of a kerning group used by a pair. Distinct = case hash."
)
ASSUMPTIONS = [
    "fontTools readers, instancer-free evaluation via TTFont.getGlyphSet(location=...) for variable fonts",
    "glyphs named by the feature text or by variation sequences are never skipped (the feature file would then name a missing glyph: a user error, not the property)",
    "out-of-run pairs under DFLT may legitimately change when skipping removes a script from the font (DESIGN.md C13); only in-run, not bidi-mixed pairs are compared",
]
N = {"quick": (8, 120), "thorough": (16, 700)}
FLOORS = {"mode=static-outline": 0.173, "mode=static-layout": 0.091, "mode=masters-union": 0.032, "mode=variable-sparse": 0.054, "skipped-used-as-component": 0.168}  # a third of the measured frequency: a starving generator is a harness error, sampling noise is not


def reload(t):
    from fontTools.ttLib import TTFont

    b = io.BytesIO()
    t.save(b)
    return TTFont(io.BytesIO(b.getvalue()))


@st.composite
def _case(draw):
    mode = draw(st.sampled_from(["static-outline", "static-outline", "static-outline", "static-layout", "static-layout", "masters-union", "masters-union", "variable-sparse", "variable-sparse"]))
    module = draw(st.sampled_from(["ufoLib2", "defcon"]))
    if mode == "static-outline":
        spec = draw(gen.outline_font(max_glyphs=7))
        for g in spec["glyphs"]:
            g["width"] = abs(g.get("width", 0))
        names = [g["name"] for g in spec["glyphs"] if g["name"] != ".notdef"]
        if len(names) < 2:
            names2 = names
        used = [c["base"] for g in spec["glyphs"] for c in g.get("components", [])]
        pool = [n for n in names if n in used] * 2 + names
        skip = draw(st.lists(st.sampled_from(pool), min_size=1, max_size=3, unique=True))
        if len(skip) >= len(names):
            skip = skip[:-1] or skip
        case = {"mode": mode, "module": module, "spec": spec, "skip": sorted(skip), "how": draw(st.sampled_from(["lib", "arg"])), "flavour": draw(st.sampled_from(["otf", "ttf"]))}
        if draw(st.sampled_from([True, False, False])):
            # non-default layer holding different drawings of (some of) the glyphs, including the skipped ones
            alt = []
            for g in spec["glyphs"]:  # the layer is closed under component references: it redraws every glyph
                h = copy.deepcopy(g)
                h["contours"] = [[[x * 0.5 + 30, y * 0.5 - 10, t] for x, y, t in c] for c in g.get("contours", [])]
                alt.append(h)
            spec["layers"] = [{"name": "alt", "glyphs": alt}]
            case["layer"] = "alt"
        return case
    if mode == "static-layout":
        spec = draw(c05.kern_font())
        names = [g["name"] for g in spec["glyphs"]]
        skippable = [n for n in names if n not in c05.ALTS and n not in c05.ALTS.values()]
        if not skippable:
            # every glyph is named by the generated feature text: add one that is not (skipping a glyph the features name is a user error)
            spec["glyphs"].append({"name": "zz.extra", "width": 500, "unicodes": [], "contours": [[[0, 0, "line"], [50, 0, "line"], [25, 40, "line"]]]})
            names.append("zz.extra")
            skippable = ["zz.extra"]
        ingroups = [m for ms in spec["groups"].values() for m in ms if m in skippable]
        skip = draw(st.lists(st.sampled_from(ingroups * 2 + skippable), min_size=1, max_size=3, unique=True))
        marks = [g for g in spec["glyphs"] if g["name"] in c05.MARKS]
        if len(marks) >= 2 and draw(st.sampled_from([True, False])):
            # explicit categories; every spacing mark is skipped and a non-spacing mark remains (the kern lookups then change from a mark filtering set to IgnoreMarks)
            cats = spec["lib"].setdefault("public.openTypeCategories", {})
            for g in marks:
                cats[g["name"]] = "mark"
            k = draw(st.integers(1, len(marks) - 1))
            for g in marks[:k]:
                g["width"] = draw(st.sampled_from([500, 250.5]))
            for g in marks[k:]:
                g["width"] = 0
            skip = sorted(set(skip[:2]) - {g["name"] for g in marks[k:]} | {g["name"] for g in marks[:k]})
        if draw(st.integers(0, 3)) == 0:
            # the category map names non-exported glyphs only: the font still counts as categorised (nothing else is a base or a mark for the writers)
            spec["lib"]["public.openTypeCategories"] = {n: ("mark" if n in c05.MARKS else "base") for n in skip}
            spec["_cats_only_skipped"] = True
        # mark anchors so that mark positioning exists too - only together with explicit categories: kerning on glyphs that are GDEF
        # marks merely by feaLib inference is the known finding KF-C05-2 and would make both compiles differ for unrelated reasons
        for g in spec["glyphs"] if "public.openTypeCategories" in spec["lib"] else []:
            if g["name"] in c05.MARKS:
                g["anchors"] = [{"name": "_top", "x": draw(st.integers(-50, 50)), "y": draw(st.integers(400, 600))}]
            elif g["unicodes"] and draw(st.booleans()):
                g["anchors"] = [{"name": "top", "x": draw(st.integers(100, 400)), "y": draw(st.integers(500, 800))}]
        if draw(st.integers(0, 5)) == 0:
            # the skipped glyph is the only glyph of its script, and a kerned remaining glyph has that script among its script extensions (danda)
            deva = {"ka-deva", "ga-deva", "anusvara-deva", "udatta"}
            spec["glyphs"] = [g for g in spec["glyphs"] if g["name"] not in deva or g["name"] == "ka-deva"]
            have_ = {g["name"] for g in spec["glyphs"]}
            for n_, u_ in (("ka-deva", 0x915), ("danda", 0x964), ("A", 0x41)):
                if n_ not in have_:
                    spec["glyphs"].append({"name": n_, "width": 500, "unicodes": [u_], "contours": [[[0, 0, "line"], [50, 0, "line"], [25, 40, "line"]]]})
            gone = deva - {"ka-deva"}
            spec["groups"] = {k: [m for m in ms if m not in gone] for k, ms in spec["groups"].items()}
            spec["kerning"] = [e for e in spec["kerning"] if e[0] not in gone and e[1] not in gone] + [["danda", "danda", -33]]
            for key in ("public.openTypeCategories",):
                if key in spec["lib"]:
                    spec["lib"][key] = {k: v for k, v in spec["lib"][key].items() if k not in gone}
            if "glyphOrder" in spec:
                spec["glyphOrder"] = [n for n in spec["glyphOrder"] if n not in gone] + [n_ for n_ in ("ka-deva", "danda", "A") if n_ not in spec["glyphOrder"]]
            skip = ["ka-deva"]
            spec["_lone_script"] = True
        only = spec.pop("_cats_only_skipped", False)
        lone = spec.pop("_lone_script", False)
        case = {"mode": mode, "module": module, "spec": spec, "skip": sorted(skip), "how": draw(st.sampled_from(["lib", "arg"]))}
        if lone:
            case["skipped_glyph_is_the_only_one_of_its_script"] = True
        if only:
            case["categories_name_skipped_glyphs_only"] = True
        return case
    if mode == "masters-union":
        spec = draw(gen.outline_font(max_glyphs=6, kinds=("line", "curve"), allow_open=False))
        for g in spec["glyphs"]:
            g["width"] = abs(g.get("width", 0))
        names = [g["name"] for g in spec["glyphs"] if g["name"] != ".notdef"]
        nm = draw(st.integers(2, 3))
        lists = [draw(st.lists(st.sampled_from(names), max_size=2, unique=True)) for _ in range(nm)]
        if not any(lists):
            lists[0] = [names[0]]
        if set().union(*map(set, lists)) >= set(names):
            lists = [[names[0]]] + [[] for _ in range(nm - 1)]
        if draw(st.sampled_from([True, True, False])):
            # a non-exported helper and a pure composite built from it
            spec["glyphs"].append({"name": "sk", "width": 300, "unicodes": [], "contours": [[[0, 0, "line"], [80, 0, "line"], [40, 200, "line"]]]})
            spec["glyphs"].append({"name": "skuser", "width": 500, "unicodes": [], "components": [{"base": "sk", "t": [1, 0, 0, 1, 30, 0]}, {"base": names[0], "t": [1, 0, 0, 1, 0, 0]}]})
            lists[draw(st.integers(0, nm - 1))].append("sk")
        case = {"mode": mode, "module": module, "spec": spec, "lists": lists, "amp": draw(st.sampled_from([0.3, 1.0]))}
        un = set().union(*map(set, lists))
        refs = [(g["name"], j, c["base"]) for g in spec["glyphs"] if g["name"] not in un and not g.get("contours") for j, c in enumerate(g.get("components", []))
                if c["base"] in un and not any(h["name"] == c["base"] and h.get("components") for h in spec["glyphs"])]
        if refs and draw(st.sampled_from([True, True, False])):
            gname, j, base = draw(st.sampled_from(refs))
            case["twin"] = {"glyph": gname, "comp": j, "base": base, "master": draw(st.integers(0, nm - 1))}
        return case
    # variable-sparse
    inner = {"name": "inner", "width": 400, "unicodes": [], "contours": [draw(gen.contour(("line",), allow_open=False, degenerate=False))]}
    outer = {"name": "outer", "width": 400, "unicodes": [], "components": [{"base": "inner", "t": [1, 0, 0, 1, draw(st.integers(-40, 40)), draw(st.integers(-40, 40))]}]}
    users = []
    for i in range(draw(st.integers(2, 3))):
        comps = [{"base": "outer", "t": [1, 0, 0, 1, 50 * i, 0]}]
        if draw(st.booleans()):
            comps.append({"base": "inner", "t": [1, 0, 0, 1, -100, 30 * i]})
        users.append({"name": "user%d" % i, "width": 500 + i, "unicodes": [0x41 + i], "components": comps})
    other = {"name": "plain", "width": 300, "unicodes": [0x61], "contours": [draw(gen.contour(("line", "curve"), allow_open=False, degenerate=False))]}
    base = {"info": {"unitsPerEm": 1000, "familyName": "Test", "styleName": "M0"}, "glyphs": [inner, outer] + users + [other]}
    skip = draw(st.sampled_from([["inner", "outer"], ["outer"], ["inner", "outer"], ["inner"]]))
    fam = {
        "base": base,
        "masters": [{"k": 0, "loc": {"Weight": 0}}, {"k": 1, "loc": {"Weight": 1000}}],
        "axes": [{"name": "Weight", "tag": "wght", "minimum": 0, "default": 0, "maximum": 1000}],
        "amp": draw(st.sampled_from([1.5, 3.0])),
        "sparse": {"k": 5, "loc": {"Weight": draw(st.sampled_from([300, 500, 700]))}, "names": draw(st.sampled_from([["inner"], ["inner"], ["inner", "plain"]]))},
        "lib": {},
    }
    if draw(st.sampled_from([True, False])):
        # second axis whose default design coordinate is 0: the sparse master then sits at a location with a zero coordinate
        fam["axes"].append({"name": "Slant", "tag": "slnt", "minimum": -10, "default": 0, "maximum": 0})
        for m in fam["masters"]:
            m["loc"]["Slant"] = 0
        fam["masters"].append({"k": 2, "loc": {"Weight": 0, "Slant": -10}})
        if draw(st.booleans()):
            fam["masters"].append({"k": 3, "loc": {"Weight": 1000, "Slant": -10}})
        fam["sparse"]["loc"]["Slant"] = 0
    case = {"mode": mode, "module": module, "fam": fam, "skip": skip, "flavour": draw(st.sampled_from(["ttf", "ttf", "cff2"]))}
    if draw(st.sampled_from([True, False, False])):
        # a second sparse master elsewhere on the weight axis: the composites have to be interpolated at more than one location
        w2 = draw(st.sampled_from([w for w in (200, 400, 600, 800) if w != fam["sparse"]["loc"]["Weight"]]))
        fam["more_sparse"] = [{"k": 6, "loc": dict(fam["sparse"]["loc"], Weight=w2), "names": draw(st.sampled_from([["inner"], ["inner"], ["inner", "plain"]]))}]
    if draw(st.integers(0, 4)) == 0:
        case["lists_in_ufos_only"] = True
    if len(fam["axes"]) > 1 and draw(st.booleans()):
        # the second axis' default is a non-zero design coordinate, and sources leave out the axes on which they sit at the default
        fam["axes"][1] = {"name": "Slant", "tag": "slnt", "minimum": -10, "default": 0, "maximum": 0, "map": [[-10, 0], [0, 20]]}
        for m in fam["masters"]:
            m["loc"]["Slant"] = 20 if m["loc"]["Slant"] == 0 else 0
        fam["sparse"]["loc"]["Slant"] = 20
        for m_ in fam.get("more_sparse", []):
            m_["loc"]["Slant"] = 20
        fam["partial_locations"] = True
    if draw(st.booleans()):
        case["via_interpolatable"] = True   # compileInterpolatable*FromDS, then varLib.build on its result (the two-step route)
    return case


def strategy(tier):
    return _case()


def sample_view(case):
    src = case.get("spec") or case["fam"]["base"]
    return {k: v for k, v in case.items() if k not in ("spec", "fam")} | {
        "glyphs": [[g["name"], len(g.get("contours", [])), [c["base"] for c in g.get("components", [])]] for g in src["glyphs"]],
        "groups": src.get("groups"),
        "sparse": case["fam"].get("sparse") if "fam" in case else None,
    }


def gpos_glyphs(t):
    out = set()
    if "GPOS" not in t:
        return out
    for lk in t["GPOS"].table.LookupList.Lookup:
        for stt in lk.SubTable:
            if stt.LookupType == 9:
                stt = stt.ExtSubTable
            if stt.LookupType == 2:
                out |= set(stt.Coverage.glyphs)
                if stt.Format == 1:
                    for ps in stt.PairSet:
                        out |= {p.SecondGlyph for p in ps.PairValueRecord}
                else:
                    out |= set(stt.ClassDef1.classDefs) | set(stt.ClassDef2.classDefs)
            elif stt.LookupType == 4:
                out |= set(stt.MarkCoverage.glyphs) | set(stt.BaseCoverage.glyphs)
            elif stt.LookupType == 6:
                out |= set(stt.Mark1Coverage.glyphs) | set(stt.Mark2Coverage.glyphs)
            elif stt.LookupType == 3:
                out |= set(stt.Coverage.glyphs)
    if "GDEF" in t and t["GDEF"].table.GlyphClassDef:
        out |= set(t["GDEF"].table.GlyphClassDef.classDefs)
    return out


def common_absence(full, sub, skip):
    o0, o1 = full.getGlyphOrder(), sub.getGlyphOrder()
    present = set(o1) & set(skip)
    if present:
        raise Violation("non-exported glyph present in the glyph order", glyphs=sorted(present))
    if o1 != [n for n in o0 if n not in skip]:
        raise Violation("relative order of the remaining glyphs changed", without_skip=o0, with_skip=o1)
    cm = sub.getBestCmap() or {}
    if set(cm.values()) & set(skip):
        raise Violation("character map still maps to a non-exported glyph")
    if set(sub["hmtx"].metrics) & set(skip):
        raise Violation("hmtx still has a non-exported glyph")
    if gpos_glyphs(sub) & set(skip):
        raise Violation("GPOS/GDEF coverage or class still names a non-exported glyph", glyphs=sorted(gpos_glyphs(sub) & set(skip)))
    for n in o1:
        if full["hmtx"][n][0] != sub["hmtx"][n][0]:
            raise Violation("advance of a remaining glyph changed", glyph=n, without_skip=full["hmtx"][n][0], with_skip=sub["hmtx"][n][0])


def run_static_outline(case, ctx):
    import ufo2ft

    spec, skip, flavour = case["spec"], case["skip"], case["flavour"]
    if extent(spec) > 16000:
        raise Discard("resolved coordinate beyond +-16000")
    module = S.ufo_module(case["module"])
    comp = ufo2ft.compileOTF if flavour == "otf" else ufo2ft.compileTTF
    kw = dict(useProductionNames=False, featureWriters=[])
    if flavour == "otf":
        kw["optimizeCFF"] = 0
    if case.get("layer"):
        kw["layerName"] = case["layer"]
    from fontTools.cu2qu.errors import Error as Cu2QuError

    try:
        with guard("compile without skip list", allowed=(Cu2QuError,)):
            full = reload(comp(S.build(spec, module), **kw))
        sp = copy.deepcopy(spec)
        kw2 = dict(kw)
        if case["how"] == "lib":
            sp.setdefault("lib", {})["public.skipExportGlyphs"] = list(skip)
        else:
            kw2["skipExportGlyphs"] = list(skip)
        with guard("compile with skip list", allowed=(Cu2QuError,)):
            sub = reload(comp(S.build(sp, module), **kw2))
    except Cu2QuError:
        raise Discard("cu2qu could not approximate a curve")
    common_absence(full, sub, skip)
    # the layer being compiled decides what the skipped glyphs look like
    layer_spec = spec
    if case.get("layer"):
        layer_spec = {"glyphs": spec["layers"][0]["glyphs"]}
    gi = R.glyph_index(layer_spec)
    for n in sub.getGlyphOrder():
        if n not in gi:
            continue
        if flavour == "otf":
            a = otread.draw_cycles(full.getGlyphSet(), n)
            b = otread.draw_cycles(sub.getGlyphSet(), n)
            if len(a) != len(b):
                raise Violation("number of contours of a remaining glyph changed", glyph=n, without_skip=len(a), with_skip=len(b))
            inexact = any(not ex for _, _, ex in R.resolve_ex(gi, n))

            def pred(i, j):
                ca, cb = a[i], b[j]
                if [op for op, _ in ca[1]] != [op for op, _ in cb[1]]:
                    return False
                pa = [ca[0]] + [p for _, ps in ca[1] for p in ps]
                pb = [cb[0]] + [p for _, ps in cb[1] for p in ps]
                d = max(max(abs(x[0] - y[0]), abs(x[1] - y[1])) for x, y in zip(pa, pb))
                return d == 0 or (inexact and d <= 1)

            bad = match(len(a), pred, ordered=False)
            if bad is not None:
                raise Violation("outline of a remaining glyph changed when glyphs are skipped", glyph=n, contour=bad, without_skip=a[bad], with_skip=b)
            ctx.count("otf-glyphs-compared")
        else:
            # TrueType: judged against the source shape (which does not depend on the skip list) with C02's bound
            src = [R.cycle(pts) for pts, rev in R.resolve(gi, n)]
            got = c02.render_tt(sub["glyf"], n)
            if len(src) != len(got):
                raise Violation("number of rendered contours of a remaining glyph differs from the source", glyph=n, got=len(got), expected=len(src))
            upm = spec["info"]["unitsPerEm"]
            # a remaining glyph that inlines a skipped base is converted in its own space; the bound below takes the larger of both
            memo = {}
            tol = max(c02.tol_of(sub["glyf"], gi, n, 0.001 * upm, memo), c02.tol_of(full["glyf"], gi, n, 0.001 * upm, {})) + 0.15
            bad = c02.match_contours([geom.flatten_cycle(c, 0.05) for c in src], [geom.flatten_cycle(c, 0.05) for c in got], tol)
            if bad is not None:
                raise Violation("remaining glyph no longer renders the source shape when glyphs are skipped", glyph=n, contour=bad[0], tolerance=tol)
            ctx.count("ttf-glyphs-rendered")
    used = {c["base"] for g in layer_spec["glyphs"] if g["name"] not in skip for c in g.get("components", [])}
    if used & set(skip):
        ctx.label("skipped-used-as-component")
        ctx.nontrivial()
    if case.get("layer"):
        ctx.label("non-default-layer")
    ctx.label(flavour)


def run_static_layout(case, ctx):
    import ufo2ft

    spec, skip = case["spec"], case["skip"]
    module = S.ufo_module(case["module"])
    names = [g["name"] for g in spec["glyphs"]]
    with guard("compile without skip list"):
        full = reload(ufo2ft.compileTTF(S.build(spec, module), useProductionNames=False))
    sp = copy.deepcopy(spec)
    kw = {}
    if case["how"] == "lib":
        sp.setdefault("lib", {})["public.skipExportGlyphs"] = list(skip)
    else:
        kw["skipExportGlyphs"] = list(skip)
    with guard("compile with skip list"):
        sub = reload(ufo2ft.compileTTF(S.build(sp, module), useProductionNames=False, **kw))
    common_absence(full, sub, skip)
    rest = [n for n in names if n not in skip]
    def kerned(t, tag):
        return any(ft in ("kern", "dist") for ft, _ in otl.langsys_features(t, "GPOS", tag)) if tag in otl.script_tags(t) else False

    # KF-C13-1: the kern writer registers a script for kerning only when some kerning entry names a glyph of that script alone; skipping the last such
    # glyph takes the whole script out of the kerning data, and with it the kerning of neutral glyphs in runs of that script. Scripts whose registration
    # differs between the two compiles are the finding's input class (not compared, counted)
    both = set(otl.script_tags(full)) & set(otl.script_tags(sub))
    tags = {tg for tg in both if kerned(full, tg) == kerned(sub, tg) or case.get("no_exclusions")} | {"DFLT"}
    if len(tags) < len(both | {"DFLT"}):
        ctx.label("known-finding-class(KF-C13-1)")
    sc, bd = c05.scripts_of(spec)

    def neutral(g):
        return (not sc[g]) or bool(sc[g] & {"Zyyy", "Zinh"})

    npairs = 0
    nacross = [0]
    width = {g["name"]: g.get("width", 0) for g in spec["glyphs"]}
    through = [n for n in rest if otl.gdef_class(full, n) == 3 and otl.gdef_class(sub, n) == 3 and not width[n]]
    for tag in sorted(tags):
        S_ = None if tag == "DFLT" else c05.script_of_tag(tag)
        for g1, g2 in itertools.product(rest, rest):
            inrun = all(neutral(g) for g in (g1, g2)) if S_ is None else all((S_ in sc[g]) or neutral(g) for g in (g1, g2))
            if not inrun or (bd[g1] | bd[g2]) >= {"L", "R"}:
                continue
            # pairs whose kerning entry is in the KF-C05-1 class depend on which glyphs are in the entry - skipping may remove the offending member
            cands = c05.candidate_rules(spec, g1, g2)
            if any(c05.rule_bidi(spec, key, bd, set(names)) >= {"L", "R"} for key, _ in cands):
                continue
            a = otl.eval_pair(full, g1, g2, tag)[0]
            b = otl.eval_pair(sub, g1, g2, tag)[0]
            npairs += 1
            if a[2] != b[2]:
                raise Violation("kerning between remaining glyphs changed by skipping other glyphs", tag=tag, pair=[g1, g2], without_skip=a, with_skip=b, skip=skip)
            # the same pair with a remaining non-spacing mark in between (kerning looks through such marks in both compiles)
            for m in through:
                if m in (g1, g2) or otl.gdef_class(full, g1) == 3 or otl.gdef_class(full, g2) == 3:
                    continue
                if not (neutral(m) if S_ is None else ((S_ in sc[m]) or neutral(m))):
                    continue  # the mark is not part of a run of this script: which lookups reach (g1, mark) may depend on the other members of its kerning group
                xa = otl.eval_pair_across(full, g1, m, g2, tag)
                xb = otl.eval_pair_across(sub, g1, m, g2, tag)
                if xa != xb:
                    raise Violation("kerning between remaining glyphs across a remaining non-spacing mark changed by skipping other glyphs", tag=tag, run=[g1, m, g2], without_skip=xa, with_skip=xb, skip=skip)
                nacross[0] += 1
            ma = otl.eval_attach(full, g1, g2, tag)
            mb = otl.eval_attach(sub, g1, g2, tag)
            if ma != mb:
                raise Violation("mark attachment between remaining glyphs changed by skipping other glyphs", tag=tag, pair=[g1, g2], without_skip=ma, with_skip=mb)
    # absolute anchor: the same layout tables as a font compiled from sources that never had the skipped glyphs (their names taken out of groups and kerning too). Only when no remaining glyph refers to a skipped one as a component - such sources can be pruned without decomposing anything
    gi_ = {g["name"]: g for g in spec["glyphs"]}
    if not any(c["base"] in skip for g in spec["glyphs"] if g["name"] not in skip for c in g.get("components", [])):
        pr = copy.deepcopy(spec)
        pr["glyphs"] = [g for g in pr["glyphs"] if g["name"] not in skip]
        pr["groups"] = {k: [m for m in ms if m not in skip] for k, ms in pr.get("groups", {}).items()}
        pr["groups"] = {k: ms for k, ms in pr["groups"].items() if ms}
        pr["kerning"] = [e for e in pr.get("kerning", []) if e[0] not in skip and e[1] not in skip and all(k_ in pr["groups"] for k_ in e[:2] if k_.startswith("public.kern"))]
        if "glyphOrder" in pr:
            pr["glyphOrder"] = [n for n in pr["glyphOrder"] if n not in skip]
        lib_ = pr.setdefault("lib", {})
        lib_.pop("public.skipExportGlyphs", None)
        # (the category map keeps its entries for the absent glyphs: whether categories are "defined" at all is a property of the map as written)
        try:
            with guard("compile of the pruned sources"):
                pruned = reload(ufo2ft.compileTTF(S.build(pr, module), useProductionNames=False))
        except Violation:
            raise
        except Exception:
            pruned = None
        if pruned is not None and pruned.getGlyphOrder() == sub.getGlyphOrder():
            for tag_ in ("GPOS", "GDEF"):
                a_ = sub.reader[tag_] if tag_ in sub.reader else None
                b_ = pruned.reader[tag_] if tag_ in pruned.reader else None
                if a_ != b_:
                    detail = {}
                    if tag_ == "GPOS" and a_ is not None and b_ is not None:
                        detail = {"scripts_with_skip_list": {tg: sorted({ft for ft, _ in otl.langsys_features(sub, "GPOS", tg)}) for tg in otl.script_tags(sub)},
                                  "scripts_pruned_sources": {tg: sorted({ft for ft, _ in otl.langsys_features(pruned, "GPOS", tg)}) for tg in otl.script_tags(pruned)}}
                    raise Violation("layout table differs from the one compiled from sources that never had the skipped glyphs", table=tag_, skip=skip, **detail)
            ctx.count("layout-tables-compared-with-pruned-sources")
            ctx.label("compared-with-pruned-sources")
    ctx.count("layout-pairs-compared", npairs)
    if nacross[0]:
        ctx.count("pairs-compared-across-a-non-spacing-mark", nacross[0])
        ctx.label("kerning-across-non-spacing-mark")
    if case.get("categories_name_skipped_glyphs_only"):
        ctx.label("categories-name-skipped-glyphs-only")
    if case.get("skipped_glyph_is_the_only_one_of_its_script"):
        ctx.label("skipped-glyph-is-the-only-one-of-its-script")
    if any(width[n] and n in c05.MARKS for n in skip) and "public.openTypeCategories" in spec["lib"]:
        ctx.label("skipped-spacing-mark")
    if any(m in skip for ms in spec["groups"].values() for m in ms):
        ctx.label("skipped-in-kerning-group")
        ctx.nontrivial()


def run_masters_union(case, ctx):
    import ufo2ft

    spec, lists = case["spec"], case["lists"]
    if extent(spec) > 8000:
        raise Discard("resolved coordinate beyond +-8000")
    module = S.ufo_module(case["module"])
    union = set().union(*map(set, lists))
    from fontTools.cu2qu.errors import Error as Cu2QuError

    twin = case.get("twin")  # {"glyph": composite, "comp": index, "master": k}: in that master the component names a non-skipped twin of the skipped base

    def master_spec(k):
        sp = F.perturb(spec, k, case["amp"])
        if twin:
            for g in list(sp["glyphs"]):
                if g["name"] == twin["base"]:
                    sp["glyphs"].append(dict(copy.deepcopy(g), name=twin["base"] + ".twin", unicodes=[]))
            if k == twin["master"]:
                for g in sp["glyphs"]:
                    if g["name"] == twin["glyph"]:
                        g["components"][twin["comp"]]["base"] = twin["base"] + ".twin"
        return sp

    def build(with_lists):
        fonts = []
        for k, lst in enumerate(lists):
            sp = master_spec(k)
            if with_lists and lst:
                sp.setdefault("lib", {})["public.skipExportGlyphs"] = list(lst)
            fonts.append(S.build(sp, module))
        return fonts

    try:
        with guard("compileInterpolatableTTFs", allowed=(Cu2QuError,)):
            got = [reload(t) for t in ufo2ft.compileInterpolatableTTFs(build(True), useProductionNames=False, featureWriters=[])]
            ref = [reload(t) for t in ufo2ft.compileInterpolatableTTFs(build(False), useProductionNames=False, featureWriters=[], skipExportGlyphs=sorted(union))]
    except Cu2QuError:
        raise Discard("cu2qu could not approximate a curve")
    for i, (g, r) in enumerate(zip(got, ref)):
        present = set(g.getGlyphOrder()) & union
        if present:
            raise Violation("glyph listed as non-exported in one of the UFOs is exported", master=i, glyphs=sorted(present), lists=lists)
        if g.getGlyphOrder() != r.getGlyphOrder():
            raise Violation("glyph order differs from the compile with the explicit union", master=i)
        for n in g.getGlyphOrder():
            if g.reader["glyf"] != r.reader["glyf"] or g["hmtx"][n] != r["hmtx"][n]:
                raise Violation("master differs from the compile with the explicit union of the skip lists", master=i, glyph=n)
    # absolute anchor: every master's remaining glyphs render their own source (skipping only inlines, it does not reshape)
    from ufoverif.checks import c02 as _c02

    upm = spec["info"].get("unitsPerEm", 1000)
    for i, g in enumerate(got):
        gi_m = R.glyph_index(master_spec(i))
        glyf = g["glyf"]
        memo = {}
        for n in g.getGlyphOrder():
            if n not in gi_m:
                continue
            src = [c_ for c_ in (R.cycle(pts) for pts, rev in R.resolve(gi_m, n)) if c_ is not None]
            drawn = _c02.render_tt(glyf, n)
            if len(src) != len(drawn):
                raise Violation("a remaining glyph of a master lost or gained contours when glyphs were skipped", master=i, glyph=n, got=len(drawn), expected=len(src), lists=lists, twin=twin)
            tolm = _c02.tol_of(glyf, gi_m, n, 0.001 * upm, memo) + 0.15
            bad = _c02.match_contours([geom.flatten_cycle(c_, 0.05) for c_ in src], [geom.flatten_cycle(c_, 0.05) for c_ in drawn], tolm)
            if bad is not None:
                raise Violation("a remaining glyph of a master does not render its source when glyphs are skipped", master=i, glyph=n, tolerance=tolm, worst_point=bad[1], lists=lists, twin=twin)
            ctx.count("master-glyphs-compared-with-their-source")
    if twin:
        ctx.label("masters-disagree-on-a-skipped-component")
    if len([l for l in lists if l]) >= 1 and lists[-1] != sorted(union):
        ctx.label("last-ufo-omits-names")
    used = {c["base"] for g in spec["glyphs"] if g["name"] not in union for c in g.get("components", [])}
    if used & union:
        ctx.label("skipped-used-as-component")
        ctx.nontrivial()


def run_variable_sparse(case, ctx):
    import ufo2ft

    fam, skip, flavour = case["fam"], case["skip"], case["flavour"]
    module = S.ufo_module(case["module"])
    comp = ufo2ft.compileVariableTTF if flavour == "ttf" else ufo2ft.compileVariableCFF2
    if case.get("via_interpolatable"):
        from fontTools import varLib

        def comp(ds_, **kw_):  # noqa: F811
            res = (ufo2ft.compileInterpolatableTTFsFromDS if flavour == "ttf" else ufo2ft.compileInterpolatableOTFsFromDS)(ds_, **kw_)
            return varLib.build(res)[0]

        ctx.label("two-step-route(interpolatable masters + varLib.build)")
    from fontTools.cu2qu.errors import Error as Cu2QuError

    try:
        with guard("compileVariable without skip list", allowed=(Cu2QuError,)):
            ds, _ = F.build_designspace(fam, module)
            full = reload(comp(ds, useProductionNames=False, featureWriters=[]))
        fam2 = copy.deepcopy(fam)
        if case.get("lists_in_ufos_only"):
            # the designspace has no skip list of its own: for a designspace build the lists stored in the source UFOs do not count (documented)
            fam2["base"].setdefault("lib", {})["public.skipExportGlyphs"] = list(skip)
        else:
            fam2["lib"] = {"public.skipExportGlyphs": list(skip)}
        with guard("compileVariable with skip list", allowed=(Cu2QuError,)):
            ds2, _ = F.build_designspace(fam2, module)
            sub = reload(comp(ds2, useProductionNames=False, featureWriters=[]))
    except Cu2QuError:
        raise Discard("cu2qu could not approximate a curve")
    if case.get("lists_in_ufos_only"):
        ctx.label("skip-lists-in-source-ufos-only(designspace build ignores them)")
        if sub.getGlyphOrder() != full.getGlyphOrder():
            raise Violation("a designspace build without a skip list of its own applied the lists stored in the source UFOs", missing=sorted(set(full.getGlyphOrder()) - set(sub.getGlyphOrder())), ufo_lists=skip)
    else:
        common_absence(full, sub, skip)
    two = len(fam["axes"]) > 1
    locs = [{"wght": w} for w in sorted({0, 1000, fam["sparse"]["loc"]["Weight"], 150, 850} | {m_["loc"]["Weight"] for m_ in fam.get("more_sparse", [])})]
    if fam.get("more_sparse"):
        ctx.label("two-sparse-masters")
    if two:
        locs = [dict(l, slnt=0) for l in locs] + [{"wght": fam["sparse"]["loc"]["Weight"], "slnt": -5}, {"wght": 0, "slnt": -10}, {"wght": 1000, "slnt": -10}]
        ctx.label("sparse-master-at-zero-coordinate-of-second-axis")
    for loc in locs:
        gsa = full.getGlyphSet(location=loc)
        gsb = sub.getGlyphSet(location=loc)
        for n in sub.getGlyphOrder():
            a = otread.draw_cycles(gsa, n)
            b = otread.draw_cycles(gsb, n)
            if len(a) != len(b):
                raise Violation("number of contours of a remaining glyph differs at a location", glyph=n, location=loc, without_skip=len(a), with_skip=len(b))
            pa = [geom.flatten_cycle(_full_cycle(c), 0.05) for c in a]
            pb = [geom.flatten_cycle(_full_cycle(c), 0.05) for c in b]
            bad = c02.match_contours(pa, pb, 2.6)
            if bad is not None:
                raise Violation("remaining glyph renders differently in the variable font when glyphs are skipped", glyph=n, location=loc, contour=bad[0], worst_point=bad[1], skip=skip)
            ctx.count("variable-glyph-locations-compared")
    ctx.label("skipped-used-as-component")
    ctx.label(flavour)
    ctx.nontrivial()


def _full_cycle(c):
    start, segs = c[0], list(c[1])
    out = []
    for op, pts in segs:
        if op == "qcurve" and pts[-1] is None:
            pts = list(pts[:-1])
            end = ((pts[-1][0] + pts[0][0]) / 2, (pts[-1][1] + pts[0][1]) / 2)
            pts = pts + [end]
        out.append((op, pts))
    return (start, out)


def run_case(case, ctx):
    {"static-outline": run_static_outline, "static-layout": run_static_layout, "masters-union": run_masters_union, "variable-sparse": run_variable_sparse}[case["mode"]](case, ctx)
    ctx.label("mode=" + case["mode"])
    ctx.label("how=%s" % case.get("how", "designspace/ufo lib"))


MANIFEST = {
    "technique": "property-based differential testing (Hypothesis): compile with vs without the skip list (static, interpolatable, variable), reference renderer for TrueType",
    "text": "Generated fonts, skip subsets and four compile paths; skipped names must be absent everywhere, remaining glyphs keep order, advance, outline (exact for CFF, "
    "within the conversion bound of the source for TrueType), kerning and mark attachment; UFO skip lists are unioned across masters; variable fonts with a sparse master "
    "of a nested skipped glyph render equally with and without the list. Counterexample search only.",
    "note": "Glyphs named by feature text/UVS are never skipped (user error otherwise). Only in-run, not bidi-mixed kerning pairs are compared (scripts present may change).",
}
