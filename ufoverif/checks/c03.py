"""C03 - glyph order and character map follow the source exactly."""
import collections
import io
import itertools

from hypothesis import strategies as st

from ufoverif import spec as S
from ufoverif.runner import Discard, Violation, guard

ID = "C03"
RULE = (
    "case = (glyph name set, code point assignment incl. U+FFFE/FFFF/10000/10FFFF, public.glyphOrder or glyphOrder= argument "
    "with duplicates/unknown names/.notdef anywhere, optional UVS map, UFO library, TTF|OTF); oracle = locally computed order "
    "(.notdef, listed existing names first occurrence, rest sorted) and cmap subtables 4/12/14 recomputed from the source; "
    "optionally colour layers (the <glyph>.<layer> copies are not encoded and are ignored by the order clause); "
    "duplicate code point must raise InvalidFontData. Non-trivial = the glyph order list is non-empty and reorders at least one glyph "
    "relative to the default order, or a supplementary code point is mapped. Distinct = distinct case hash."
)
ASSUMPTIONS = [
    "fontTools' cmap/post/maxp decompilers report what the saved bytes contain",
    "an encoded '.notdef' (maps to glyph 0 = unmapped) and UVS data on unmapped base code points are outside the statement and not generated",
]
N = {"quick": (8, 500), "thorough": (16, 2500)}
FLOORS = {"argument-overrides-stored-order": 0.025, "supplementary-cp": 0.092, "order-reorders": 0.061, "duplicate-cp-rejected": 0.008, "uvs": 0.05}  # a third of the measured frequency: a starving generator is a harness error, sampling noise is not

NAMES = [".notdef", "a", "b", "c", "B", "zz", "a.alt", "_x", "A", "f_i", "uni0041"]
CPS = [0x20, 0x41, 0x61, 0xFFFD, 0xFFFE, 0xFFFF, 0x10000, 0x10001, 0x1F600, 0x10FFFF, 0x3042, 0x0, 0xD, 0xE000, 0xF0000]


@st.composite
def _case(draw):
    names = draw(
        st.lists(st.sampled_from(NAMES), min_size=1, max_size=8, unique=True).filter(lambda l: any(n != ".notdef" for n in l))
    )
    dup = draw(st.integers(0, 9)) == 0
    cps = draw(st.lists(st.one_of(st.sampled_from(CPS), st.integers(0x21, 0x2FFFF).filter(lambda c: not 0xD800 <= c <= 0xDFFF)), unique=not dup, max_size=8))
    glyphs = [{"name": n, "width": 500, "unicodes": []} for n in names]
    for cp in cps:
        g = glyphs[draw(st.integers(0, len(glyphs) - 1))]
        if g["name"] == ".notdef":
            continue
        if cp not in g["unicodes"]:
            g["unicodes"].append(cp)
    order_st = st.one_of(st.none(), st.lists(st.sampled_from(NAMES + ["ghost"]), max_size=9), st.permutations(names))
    order = draw(order_st)
    as_arg = draw(st.booleans())
    lib_order = draw(order_st) if as_arg and draw(st.booleans()) else None   # stored order that the argument must override
    lib = {}
    mapped = {}
    for g in glyphs:
        for cp in g["unicodes"]:
            mapped.setdefault(cp, g["name"])
    if mapped and draw(st.booleans()):
        uvs = {}
        for vs in draw(st.lists(st.sampled_from(["FE00", "FE0F", "E0100"]), unique=True, min_size=1, max_size=2)):
            bases = draw(st.lists(st.sampled_from(sorted(mapped)), unique=True, min_size=1, max_size=3))
            uvs[vs] = {"%04X" % cp: draw(st.sampled_from(names)) for cp in bases}
        lib["public.unicodeVariationSequences"] = uvs
    second = None
    if draw(st.integers(0, 3)) == 0:
        # a second master with the same glyphs and its own stored order: compiled together with the first, each follows its own (or the argument)
        second = {"order": draw(order_st)}
    spec_ = {"info": {"unitsPerEm": 1000}, "glyphs": glyphs, "lib": lib}
    colour = False
    real = [g for g in glyphs if g["name"] != ".notdef"]
    if len(real) >= 2 and second is None and draw(st.integers(0, 7)) == 0:
        # colour layers: the first glyph is painted by a layer in which it is a composite of the second one, and in that layer the second glyph carries a
        # (private-use) code point of its own. The glyphs the compiler copies out of the colour layer are not encoded: the cmap is the default layer's
        colour = True
        pfx = "com.github.googlei18n.ufo2ft."
        lib[pfx + "colorPalettes"] = [[[1, 0, 0, 1]]]
        real[0]["lib"] = {pfx + "colorLayerMapping": [["color1", 0]]}
        tri = [[0, 0, "line"], [60, 0, "line"], [30, 50, "line"]]
        spec_["layers"] = [{"name": "color1", "glyphs": [
            {"name": real[0]["name"], "width": 500, "unicodes": [], "components": [{"base": real[1]["name"], "t": [1, 0, 0, 1, 0, 0]}]},
            {"name": real[1]["name"], "width": 500, "unicodes": [0xF8FF], "contours": [tri]}]}]
    return {
        "second": second,
        "colour": colour,
        "spec": spec_,
        "order": order,
        "as_arg": as_arg,
        "lib_order": lib_order,
        "module": draw(st.sampled_from(["ufoLib2", "defcon"])),
        "flavour": draw(st.sampled_from(["ttf", "otf"])),
    }


def strategy(tier):
    return _case()


def enumerate_cases(tier):
    """small-scope exhaustive slice: all name sets within {.notdef,a,b,c} x all order lists up to length L over
    {.notdef,a,b,c,zz}"""
    L = 3 if tier == "thorough" else 2
    pool = [".notdef", "a", "b", "c"]
    alphabet = [".notdef", "a", "b", "c", "zz"]
    i = 0
    for r in range(1, 5):
        for names in itertools.combinations(pool, r):
            if names == (".notdef",):
                continue
            for k in range(L + 1):
                for order in itertools.product(alphabet, repeat=k):
                    i += 1
                    glyphs = [{"name": n, "width": 500, "unicodes": [] if n == ".notdef" else [0x60 + "abc".index(n) + 1]} for n in names]
                    yield {
                        "spec": {"info": {"unitsPerEm": 1000}, "glyphs": glyphs, "lib": {}},
                        "order": list(order),
                        "as_arg": bool(i & 1),
                        "lib_order": (["c", "b", "a"] if i & 8 else None) if i & 1 else None,
                        "module": "ufoLib2" if i & 2 else "defcon",
                        "flavour": "ttf" if i & 4 else "otf",
                    }


EXHAUSTIVE_SLICE = True


def expected_order(names, order):
    exp = [".notdef"]
    rest = set(names) - {".notdef"}
    for n in order or []:
        if n in rest:
            rest.remove(n)
            exp.append(n)
    exp += sorted(rest)
    return exp


def run_case(case, ctx):
    import ufo2ft
    from fontTools.ttLib import TTFont
    from ufo2ft.errors import InvalidFontData

    spec, order, as_arg = case["spec"], case["order"], case["as_arg"]
    module = S.ufo_module(case["module"])
    sp = dict(spec)
    lib_order = case.get("lib_order") if as_arg else order
    if lib_order is not None:
        sp["glyphOrder"] = lib_order
    f = S.build(sp, module)
    if "public.glyphOrder" in f.lib and lib_order is None:
        del f.lib["public.glyphOrder"]  # defcon materialises insertion order otherwise
    if as_arg and order is None:
        order = lib_order   # no argument given: the stored order counts
    owners = collections.defaultdict(set)
    for g in spec["glyphs"]:
        for cp in g["unicodes"]:
            owners[cp].add(g["name"])
    has_dup = any(len(v) > 1 for v in owners.values())
    comp = ufo2ft.compileTTF if case["flavour"] == "ttf" else ufo2ft.compileOTF
    kw = {"glyphOrder": list(case["order"])} if as_arg and case["order"] is not None else {}
    names = [g["name"] for g in spec["glyphs"]]
    try:
        with guard("compile", allowed=(InvalidFontData,)):
            t = comp(f, useProductionNames=False, featureWriters=[], **kw)
            b = io.BytesIO()
            t.save(b)
    except InvalidFontData as e:
        if not has_dup:
            raise Violation("InvalidFontData without a duplicate code point: %s" % e)
        ctx.label("duplicate-cp-rejected")
        ctx.nontrivial()
        return
    if has_dup:
        raise Violation("code point declared by two glyphs was not rejected", owners={hex(k): sorted(v) for k, v in owners.items() if len(v) > 1})
    t = TTFont(io.BytesIO(b.getvalue()))
    exp = expected_order(names, order)
    got = t.getGlyphOrder()
    if case.get("colour"):
        # glyphs copied out of the colour layer are named <glyph>.<layer>; where they are placed is not part of the statement
        extra_ = [n for n in got if n not in names and n != ".notdef"]
        if any(not n.endswith(".color1") for n in extra_):
            raise Violation("unexpected glyphs in a colour font", extra=extra_)
        got = [n for n in got if n not in extra_]
        exp = [n for n in exp if n not in extra_]
        ctx.label("colour-layers")
    if got != exp:
        raise Violation("glyph order differs", got=got, expected=exp, order=order)
    if t["maxp"].numGlyphs != len(t.getGlyphOrder()):
        raise Violation("maxp.numGlyphs != number of glyphs", got=t["maxp"].numGlyphs, expected=len(exp))
    mapping = {cp: next(iter(v)) for cp, v in owners.items()}
    bmp = {k: v for k, v in mapping.items() if k <= 0xFFFF}
    subs = {(s.format, s.platformID, s.platEncID): s for s in t["cmap"].tables}
    for key in ((4, 0, 3), (4, 3, 1)):
        if key not in subs:
            raise Violation("cmap subtable %s missing" % (key,))
        if subs[key].cmap != bmp:
            raise Violation("format 4 subtable %s is not exactly the BMP mapping" % (key,), got={hex(k): v for k, v in subs[key].cmap.items()}, expected={hex(k): v for k, v in bmp.items()})
    if len(bmp) != len(mapping):
        ctx.label("supplementary-cp")
        ctx.nontrivial()
        for key in ((12, 0, 4), (12, 3, 10)):
            if key not in subs:
                raise Violation("cmap subtable %s missing although a supplementary code point is mapped" % (key,))
            if subs[key].cmap != mapping:
                raise Violation("format 12 subtable %s is not the full mapping" % (key,), got={hex(k): v for k, v in subs[key].cmap.items()}, expected={hex(k): v for k, v in mapping.items()})
    else:
        for key in ((12, 0, 4), (12, 3, 10)):
            if key in subs:
                raise Violation("format 12 subtable %s present without supplementary code points" % (key,))
    best = t.getBestCmap() or {}
    if best != mapping:
        raise Violation("best cmap differs from the source mapping", got={hex(k): v for k, v in best.items()}, expected={hex(k): v for k, v in mapping.items()})
    uvs = spec["lib"].get("public.unicodeVariationSequences")
    if uvs:
        ctx.label("uvs")
        if (14, 0, 5) not in subs:
            raise Violation("format 14 subtable missing")
        gotu = {vs: sorted(([cp, gn] for cp, gn in v), key=repr) for vs, v in subs[(14, 0, 5)].uvsDict.items()}
        expu = {
            int(vs, 16): sorted(([int(cp, 16), None if mapping[int(cp, 16)] == gn else gn] for cp, gn in m.items()), key=repr)
            for vs, m in uvs.items()
        }
        if gotu != expu:
            raise Violation("variation sequences differ", got=gotu, expected=expu)
    elif (14, 0, 5) in subs:
        raise Violation("format 14 subtable present without UVS data")
    if case.get("second"):
        # multi-source compile: the glyph order rule applies to every compiled master with its own stored order
        so = case["second"]["order"]
        sp2 = dict(spec)
        if so is not None:
            sp2["glyphOrder"] = so
        f1, f2 = S.build(sp, module), S.build(sp2, module)
        for ff, oo in ((f1, lib_order), (f2, so)):
            if "public.glyphOrder" in ff.lib and oo is None:
                del ff.lib["public.glyphOrder"]
        with guard("multi-source compile"):
            if case["flavour"] == "ttf":
                outs = list(ufo2ft.compileInterpolatableTTFs([f1, f2], useProductionNames=False, featureWriters=[], **kw))
            else:
                from fontTools.designspaceLib import AxisDescriptor, DesignSpaceDocument, SourceDescriptor

                ds = DesignSpaceDocument()
                ax = AxisDescriptor()
                ax.name, ax.tag, ax.minimum, ax.default, ax.maximum = "Weight", "wght", 0, 0, 1000
                ds.addAxis(ax)
                for k_, ff in enumerate((f1, f2)):
                    sd = SourceDescriptor()
                    sd.font, sd.name, sd.location = ff, "m%d" % k_, {"Weight": 1000 * k_}
                    ds.addSource(sd)
                outs = [sd.font for sd in ufo2ft.compileInterpolatableOTFsFromDS(ds, useProductionNames=False, featureWriters=[], **kw).sources]
        for k_, (tt, stored) in enumerate(zip(outs, (lib_order, so))):
            eff = list(case["order"]) if (as_arg and case["order"] is not None) else stored
            e2 = expected_order(names, eff)
            if tt.getGlyphOrder() != e2:
                raise Violation("glyph order of a master compiled together with others differs from its own requested / stored order", master=k_, got=tt.getGlyphOrder(), expected=e2,
                                stored_orders=[lib_order, so], argument=case["order"] if as_arg else None)
        ctx.label("two-masters-with-own-stored-orders")
    if order and exp != expected_order(names, []):
        ctx.label("order-reorders")
        ctx.nontrivial()
    if ".notdef" not in names:
        ctx.label("notdef-synthesised")
    if as_arg and case.get("lib_order") is not None and case["order"] is not None:
        ctx.label("argument-overrides-stored-order")
        if not case["order"]:
            ctx.label("empty-argument-overrides-stored-order")
    if order and len(set(order)) != len(order):
        ctx.label("order-has-duplicates")
    ctx.label(case["flavour"])
    ctx.label(case["module"])

MANIFEST = {
    "technique": "property-based testing (Hypothesis) + exhaustive small-scope enumeration against a locally recomputed glyph order and cmap",
    "text": "Generated search: thousands of random (name set, code points, glyph order, UVS, library, flavour) cases per run plus an exhaustive "
    "enumeration of all glyph-order lists up to length 3 over a 4-glyph universe; each compiled font is saved, reloaded and compared with an "
    "independent restatement of the ordering rule and of the cmap subtable split. Finds counterexamples, does not prove absence.",
    "note": "Trusts fontTools' cmap/maxp readers. Domain excludes an encoded .notdef and UVS entries on unmapped bases (outside the statement).",
}
