"""C06 - generated mark features make matching anchors coincide."""
import io
import itertools
import re

from hypothesis import strategies as st

from ufoverif import otl, refmodel as R, spec as S
from ufoverif.runner import Discard, Violation, guard

ID = "C06"
RULE = (
    "case = (2-10 glyphs with roles base / mark / mark-with-base-anchors / ligature (2, 3 or 11 components) over Latin, Cyrillic, Arabic, Devanagari, Bengali, "
    "Khmer code points and unencoded glyphs; anchors from a small key pool with fractional/negative/x.5 coordinates, several classes per mark, gaps in "
    "ligature numbering; without categories a ligature glyph may also carry a plain anchor of another key (attached like a base anchor); GDEF via complete / partial public.openTypeCategories or none; languagesystem statements; quantization 1/5/10; groupMarkClasses); "
    "oracle = own GPOS interpreter (MarkBase/MarkLig/MarkMark, lookup flags, filtering sets) evaluated for every ordered (glyph, mark) pair and ligature "
    "component under every script tag against candidate offsets q(base anchor) - q(mark anchor) computed from the source: none when no key matches, the "
    "unique candidate, or one of several; attachment kind must follow the glyph's role. Non-trivial = a mark with two classes, a ligature, or an "
    "Indic/USE base (abvm/blwm routing) is present. Distinct = case hash."
)
ASSUMPTIONS = [
    "fontTools' GPOS/GDEF decompiler reports the compiled tables; attachment = base anchor - mark anchor of the last applying lookup",
    "one glyph never carries the same key both plain and numbered (feaLib rejects pos base + pos ligature for one glyph without GDEF); anchor names are unique per glyph",
    "mark-to-mark pairs split by the abvm / not-abvm partition are a known finding (KF-C06-1) and get the weak clause",
]
N = {"quick": (8, 150), "thorough": (16, 1200)}
FLOORS = {"ligature": 0.191, "mark-with-two-classes": 0.142, "abvm-base": 0.15, "categories": 0.168, "mkmk-candidate": 0.163}  # a third of the measured frequency: a starving generator is a harness error, sampling noise is not

BASES = [("A", 0x41), ("o", 0x6F), ("be-cy", 0x431), ("alef-ar", 0x627), ("ka-deva", 0x915), ("ga-deva", 0x917), ("ubase", None), ("dottedcircle", 0x25CC),
         ("ka-beng", 0x995), ("ka-khmer", 0x1780)]
MARKS = [("acutecomb", 0x301), ("gravecomb", 0x300), ("dotbelowcomb", 0x323), ("fatha-ar", 0x64E), ("anusvara-deva", 0x902), ("nukta-deva", 0x93C), ("umark", None),
         ("candrabindu-beng", 0x981)]
LIGS = [("f_i", None), ("lam_alef-ar", 0xFEFB), ("f_f_i", None), ("a_b_c_d_e_f_g_h_i_j_k", None), ("ka_ssa-deva", 0x929)]  # the last one: an encoded Devanagari glyph treated as a ligature
KEYS = ["top", "bottom", "top.alt", "ogonek", "nukta"]
coord = st.one_of(st.integers(-300, 900), st.integers(-600, 1800).map(lambda k: k / 2), st.integers(-3000, 9000).map(lambda k: k / 10),
                  st.sampled_from([250.5, 12.5, -1.5, -3.5, 245, 2.5, -2.5, 0.5]))


def _mk(n, u, w):
    return {"name": n, "width": w, "unicodes": [u] if u else [], "contours": [[[0, 0, "line"], [100, 0, "line"], [100, 100, "line"]]], "anchors": []}


@st.composite
def mark_font(draw):
    bases = draw(st.lists(st.sampled_from(BASES), min_size=1, max_size=4, unique=True))
    marks = draw(st.lists(st.sampled_from(MARKS), min_size=1, max_size=4, unique=True))
    ligs = draw(st.lists(st.sampled_from(LIGS), max_size=2, unique=True))
    glyphs, roles = [], {}
    for n, u in bases:
        g = _mk(n, u, 500)
        roles[n] = "base"
        for k in draw(st.lists(st.sampled_from(KEYS), max_size=3, unique=True)):
            g["anchors"].append({"name": k, "x": draw(coord), "y": draw(coord)})
        if draw(st.integers(0, 6)) == 0:
            g["anchors"].append({"name": "misc", "x": 1, "y": 2})
        glyphs.append(g)
    for n, u in marks:
        g = _mk(n, u, 0)
        roles[n] = "mark"
        for k in draw(st.lists(st.sampled_from(KEYS), min_size=1, max_size=2, unique=True)):
            g["anchors"].append({"name": "_" + k, "x": draw(coord), "y": draw(coord)})
        for k in draw(st.lists(st.sampled_from(KEYS), max_size=2, unique=True)):  # mkmk
            g["anchors"].append({"name": k, "x": draw(coord), "y": draw(coord)})
        glyphs.append(g)
    for n, u in ligs:
        g = _mk(n, u, 900)
        roles[n] = "ligature"
        ncomp = n.count("_") + 1
        for k in draw(st.lists(st.sampled_from(["top", "bottom", "nukta"] if n.endswith("-deva") else KEYS[:3]), min_size=1, max_size=2, unique=True)):
            for i in draw(st.lists(st.integers(1, ncomp), min_size=1, max_size=min(ncomp, 4), unique=True)):
                g["anchors"].append({"name": "%s_%d" % (k, i), "x": draw(coord), "y": draw(coord)})
        glyphs.append(g)
    glyphs = draw(st.permutations(glyphs))
    spec = {"info": {"unitsPerEm": 1000}, "glyphs": list(glyphs), "lib": {}, "roles": roles}
    cat = draw(st.sampled_from(["none", "none", "full", "full", "partial"]))
    if cat == "full":
        spec["lib"]["public.openTypeCategories"] = dict(roles)
        withanch = [g for g in spec["glyphs"] if roles[g["name"]] == "base" and g["anchors"]]
        if withanch and draw(st.integers(0, 3)) == 0:
            # a glyph categorised as base that also kept a mark-side anchor (a spacing accent): it stays a base, its '_' anchor is inert
            g = draw(st.sampled_from(withanch))
            k = draw(st.sampled_from(KEYS[:3]))
            if not any(a["name"] == "_" + k for a in g["anchors"]):
                g["anchors"].append({"name": "_" + k, "x": draw(coord), "y": draw(coord)})
                spec["base_with_mark_anchor"] = g["name"]
    elif cat == "partial":
        spec["lib"]["public.openTypeCategories"] = {n: r for n, r in roles.items() if draw(st.sampled_from([True, True, True, False]))}
    elif draw(st.integers(0, 2)) == 0:
        # no categories: a ligature glyph may carry, beside its numbered anchors, a plain anchor of ANOTHER key (attached by mark-to-base)
        for g in spec["glyphs"]:
            if roles[g["name"]] == "ligature":
                used = {re.sub(r"_\d+$", "", a["name"]) for a in g["anchors"]}
                free = [k for k in KEYS[:3] if k not in used]
                if free:
                    g["anchors"].append({"name": free[0], "x": draw(coord), "y": draw(coord)})
                    spec["lig_with_plain_anchor"] = True
    fea = ""
    if draw(st.booleans()):
        tags = draw(st.lists(st.sampled_from(["latn", "arab", "dev2", "deva", "cyrl", "bng2", "khmr"]), unique=True, max_size=3))
        fea = "languagesystem DFLT dflt;\n" + "".join("languagesystem %s dflt;\n" % t for t in tags)
    # leftover markClass definitions in the user's feature text that clash with (or equal) the generated ones
    if draw(st.sampled_from([True, False, False])):
        # only for mark anchors that do attach to something (a markClass statement makes its glyph a GDEF mark for feaLib's inference:
        # declaring a glyph that the anchors treat as a base would be contradictory user input)
        base_keys = {re.sub(r"_\d+$", "", a["name"]) for g in spec["glyphs"] for a in g["anchors"] if not a["name"].startswith("_")}
        for g in spec["glyphs"]:
            for a in g["anchors"]:
                if a["name"].startswith("_") and a["name"][1:] in base_keys and roles[g["name"]] == "mark" and draw(st.booleans()):
                    kind = draw(st.sampled_from(["same", "other-y", "other-x"]))
                    x = R.ot_round(a["x"]) + (7 if kind == "other-x" else 0)
                    y = R.ot_round(a["y"]) + (50 if kind == "other-y" else 0)
                    fea += "markClass %s <anchor %d %d> @MC_%s;\n" % (g["name"], x, y, a["name"][1:].replace(".", "_"))
        spec["leftover_markclass"] = True
    spec["features"] = fea
    return spec


@st.composite
def _case(draw):
    return {
        "spec": draw(mark_font()),
        "module": draw(st.sampled_from(["ufoLib2", "defcon"])),
        "quant": draw(st.sampled_from([1, 1, 5, 10])),
        "group": draw(st.booleans()),
        # the writer instance has served another font before (different glyphs): nothing of that font may linger in it
        "first": draw(st.one_of(st.none(), st.none(), mark_font())),
    }


def strategy(tier):
    return _case()


def sample_view(case):
    sp = case["spec"]
    return {
        "options": {k: case[k] for k in ("module", "quant", "group")},
        "glyphs": [[g["name"], g["unicodes"], [(a["name"], a["x"], a["y"]) for a in g["anchors"]]] for g in sp["glyphs"]],
        "categories": sp["lib"].get("public.openTypeCategories"),
        "features": sp["features"],
    }


def q(v, quant):
    return R.ot_round(quant * R.ot_round(v / quant))


def abvm_sets(spec):
    """restates the writer's documented partition: (abvm glyphs, not-abvm glyphs)"""
    from fontTools import unicodedata as ud
    from ufo2ft.constants import INDIC_SCRIPTS, USE_SCRIPTS

    ABVM = set(INDIC_SCRIPTS) | set(USE_SCRIPTS) | {"Khmr"}
    declared = set()
    for m in re.finditer(r"languagesystem\s+(\S+)\s+\S+;", spec["features"]):
        if m.group(1) != "DFLT":
            declared.add(ud.ot_tag_to_script(m.group(1)))
    use = ABVM & declared if declared else ABVM
    names = [g["name"] for g in spec["glyphs"]]
    abvm, notabvm = set(), set()
    any_abvm_cp = False
    for g in spec["glyphs"]:
        for u in g["unicodes"]:
            scx = set(ud.script_extension(chr(u)))
            if scx & use:
                abvm.add(g["name"])
                any_abvm_cp = True
            if scx - ABVM:
                notabvm.add(g["name"])
    if not use or not any_abvm_cp:
        return set(), set(names)
    notabvm |= set(names) - abvm
    return abvm, notabvm


def run_case(case, ctx):
    import ufo2ft
    from fontTools.feaLib.error import FeatureLibError
    from fontTools.ttLib import TTFont
    from ufo2ft.featureWriters import GdefFeatureWriter, MarkFeatureWriter

    spec, quant = case["spec"], case["quant"]
    f = S.build(spec, S.ufo_module(case["module"]))
    ws = [MarkFeatureWriter(quantization=quant, groupMarkClasses=case["group"])]
    cats = spec["lib"].get("public.openTypeCategories")
    if cats is not None:
        ws.append(GdefFeatureWriter)
    if case.get("first"):
        sp1 = {k_: v_ for k_, v_ in case["first"].items() if k_ != "roles"}
        try:
            ufo2ft.compileTTF(S.build(sp1, S.ufo_module(case["module"])), useProductionNames=False, featureWriters=ws)
        except Exception:
            pass
        ctx.label("writer-instance-used-on-another-font-first")
    with guard("compileTTF with MarkFeatureWriter"):
        ttf = ufo2ft.compileTTF(f, useProductionNames=False, featureWriters=ws)
        b = io.BytesIO()
        ttf.save(b)
    t = TTFont(io.BytesIO(b.getvalue()))
    roles = spec["roles"]
    names = [g["name"] for g in spec["glyphs"]]
    included = set(names) if not cats else {n for n in names if cats.get(n) in ("base", "ligature", "mark")}
    A = {}
    for g in spec["glyphs"]:
        d = {}
        for a in g["anchors"]:
            if a["name"][0].isalpha() or a["name"][0] == "_":
                d[a["name"]] = (q(a["x"], quant), q(a["y"], quant))
        A[g["name"]] = d
    base_keys_plain = {re.sub(r"_\d+$", "", k) for n in included for k in A[n] if not k.startswith("_")}
    mark_keys = {k[1:] for n in included for k in A[n] if k.startswith("_")}

    def is_mark(n):
        if n not in included:
            return False
        if cats and cats.get(n) != "mark":
            return False
        return any(k.startswith("_") and k[1:] in base_keys_plain for k in A[n])

    # known finding KF-C06-2: a leftover markClass in the user's feature text whose anchor differs from the UFO's makes the writer define a
    # second class (MC_k_1) and reference only that one from the base anchors: the other marks of key k lose their attachment
    split_keys = set()
    for m in re.finditer(r"markClass (\S+) <anchor (-?\d+) (-?\d+)> @MC_(\S+);", spec["features"]):
        gname, x, y, cls = m.group(1), int(m.group(2)), int(m.group(3)), m.group(4)
        for k, v in A.get(gname, {}).items():
            if k.startswith("_") and k[1:].replace(".", "_") == cls and v != (x, y):
                split_keys.add(k[1:])
    abvm, notabvm = abvm_sets(spec)
    tags = set(otl.script_tags(t)) | {"DFLT"}
    npairs = natt = nweak = nkf = nkf2 = 0
    two_class = any(sum(1 for k in A[n] if k.startswith("_") and k[1:] in base_keys_plain) >= 2 for n in names if is_mark(n))
    mkmk_cand = False
    nplain = 0
    for tag in sorted(tags):
        for g1, g2 in itertools.product(names, names):
            if not is_mark(g2):
                got = otl.eval_attach(t, g1, g2, tag)
                if got is not None and not (cats and g2 not in included) and roles[g2] != "mark":
                    raise Violation("a glyph that is not a mark glyph is positioned by the mark lookups", tag=tag, pair=[g1, g2], got=got)
                continue
            g1_is_mark = is_mark(g1)
            as_lig = roles[g1] == "ligature" and not g1_is_mark
            ncomp = g1.count("_") + 1 if as_lig else 1
            for comp in range(1, ncomp + 1):
                cands = set()
                for k, (mx, my) in A[g2].items():
                    if not k.startswith("_"):
                        continue
                    bk = k[1:] if not as_lig else "%s_%d" % (k[1:], comp)
                    if bk in A[g1] and k[1:] in mark_keys:
                        cands.add((A[g1][bk][0] - mx, A[g1][bk][1] - my))
                plain = set()
                if as_lig:
                    # a plain (un-numbered) anchor of a ligature glyph attaches like a base anchor, whatever the component
                    for k, (mx, my) in A[g2].items():
                        if k.startswith("_") and k[1:] in A[g1] and k[1:] in mark_keys:
                            plain.add((A[g1][k[1:]][0] - mx, A[g1][k[1:]][1] - my))
                got = otl.eval_attach(t, g1, g2, tag, comp=comp if as_lig else None)
                npairs += 1
                weak = False
                if g1 not in included:
                    weak = True  # glyph outside the declared GDEF classes takes no part
                elif cats and not g1_is_mark and cats.get(g1) == "mark":
                    weak = True  # categorised mark without an effective mark anchor: in no lookup
                elif cats and not g1_is_mark and cats.get(g1) != roles[g1]:
                    weak = True
                if g1_is_mark:
                    mkmk_cand = mkmk_cand or bool(cands)
                    both_not = g1 in notabvm and g2 in notabvm
                    both_abvm = g1 in abvm and g2 in abvm
                    if not (both_not or both_abvm) and not case.get("no_exclusions"):
                        nkf += 1
                        weak = True  # known finding KF-C06-1
                if not case.get("no_exclusions") and any(k.startswith("_") and k[1:] in split_keys for k in A[g2]):
                    nkf2 += 1
                    weak = True  # known finding KF-C06-2
                if weak:
                    nweak += 1
                    if got is not None and got[1] not in (cands | plain):
                        raise Violation("attachment offset is not one of the source-defined candidates", tag=tag, pair=[g1, g2], component=comp, got=got, candidates=sorted(cands))
                    continue
                if plain and not cats:
                    nplain += 1
                    if got is None:
                        raise Violation("no attachment generated for the plain anchor of a glyph that also has numbered ligature anchors", tag=tag, pair=[g1, g2], component=comp, candidates=sorted(plain | cands))
                    if got[1] not in (plain | cands):
                        raise Violation("attachment offset differs from base anchor minus mark anchor", tag=tag, pair=[g1, g2], component=comp, got=got, candidates=sorted(plain | cands), quant=quant)
                    if not cands and got[0] != "base":
                        raise Violation("attachment comes from the wrong lookup type", tag=tag, pair=[g1, g2], got=got, expected_kind="base")
                    continue
                if plain:
                    continue  # categorised fonts: which of the two forms wins is the writer's choice, not compared
                if not cands:
                    if got is not None:
                        raise Violation("attachment generated for a pair without a matching anchor name", tag=tag, pair=[g1, g2], component=comp, got=got)
                else:
                    natt += 1
                    if got is None:
                        raise Violation("no attachment generated although anchors match", tag=tag, pair=[g1, g2], component=comp, candidates=sorted(cands))
                    if got[1] not in cands:
                        raise Violation("attachment offset differs from base anchor minus mark anchor", tag=tag, pair=[g1, g2], component=comp, got=got, candidates=sorted(cands), quant=quant)
                    eff = "mark" if g1_is_mark else ("lig" if as_lig else "base")
                    if got[0] != eff:
                        raise Violation("attachment comes from the wrong lookup type", tag=tag, pair=[g1, g2], got=got, expected_kind=eff)
    ctx.count("pairs", npairs)
    if nplain:
        ctx.count("ligature-plain-anchor-pairs", nplain)
        ctx.label("ligature-glyph-with-a-plain-anchor")
    ctx.count("attachments-checked", natt)
    ctx.count("weak-pairs", nweak)
    ctx.count("pairs-in-known-finding-class(KF-C06-1)", nkf)
    ctx.count("pairs-in-known-finding-class(KF-C06-2)", nkf2)
    has_lig = any(r == "ligature" for r in roles.values())
    if has_lig:
        ctx.label("ligature")
    if any(n.count("_") >= 9 for n in roles):
        ctx.label("ligature>=10-components")
    if two_class:
        ctx.label("mark-with-two-classes")
    abvm_base = any(n in abvm and roles[n] == "base" for n in names)
    if abvm_base:
        ctx.label("abvm-base")
    if cats:
        ctx.label("categories")
    if mkmk_cand:
        ctx.label("mkmk-candidate")
    if spec["features"] and "languagesystem" in spec["features"]:
        ctx.label("languagesystems")
    if "markClass" in spec["features"]:
        ctx.label("leftover-markClass-in-user-features")
    ctx.label("quant=%s" % quant)
    ctx.nontrivial(two_class or has_lig or abvm_base)


MANIFEST = {
    "technique": "property-based testing (Hypothesis): own GPOS mark-attachment interpreter vs anchor differences recomputed from the source",
    "text": "Generated search over anchor assignments, roles, GDEF sources, scripts and writer options; every (glyph, mark) pair and ligature component is evaluated "
    "in the compiled GPOS under every script tag and compared with the set of source-defined candidate offsets. Counterexample search only.",
    "note": "Trusts fontTools' GPOS/GDEF readers. Mark-to-mark pairs across the abvm partition are a listed known finding and get the weak clause.",
}
