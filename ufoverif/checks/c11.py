"""C11 - production names rename glyphs and change nothing else."""
import io
import re

from hypothesis import strategies as st

from ufoverif import otread, refmodel as R, spec as S
from ufoverif.runner import Discard, Violation, guard

ID = "C11"
RULE = (
    "case = (2-10 glyph names with suffixes, ligature underscores, uniXXXX look-alikes, illegal characters, > 63 characters, 16-part ligatures, names equal to "
    "generated '.N' suffix names; code points BMP/supplementary, 1-3 per glyph in arbitrary source order; optional public.postscriptNames with duplicates, empty strings, illegal characters, swaps and "
    "values colliding with other source names; kerning + a GSUB feature + a composite so every table has content; lib switches useProductionNames / keepGlyphNames "
    "vs explicit argument) x {TTF, CFF, CFF2} x {ufoLib2, defcon}; oracle = compile with production names on and off: every table except post / CFF is "
    "byte-identical (head modulo checkSumAdjustment), CFF charstrings/widths equal by glyph index, final names unique, legal ([0-9A-Za-z_.]), equal to the "
    "lib-supplied name or the uniXXXX/uXXXXX/suffix/ligature composition restated locally (optionally with a numeric de-duplication suffix). "
    "Non-trivial = at least one glyph is renamed and a collision or illegal character occurs. Distinct = case hash."
)
ASSUMPTIONS = [
    "fontTools' sfnt reader returns the raw table bytes; CFF charstrings are compared after decompilation by glyph index",
    "names longer than 63 characters are only warned about by ufo2ft and are not part of the statement",
]
N = {"quick": (8, 300), "thorough": (16, 1500)}
FLOORS = {"renamed": 0.229, "collision": 0.073, "illegal-char-in-source": 0.147, "postscriptNames": 0.13, "cff": 0.086}  # a third of the measured frequency: a starving generator is a harness error, sampling noise is not

LONGLIG = "_".join(["A-cy"] * 16)
NAMEPOOL = ["a", "b", "a.alt", "a.sc", "f_i", "f_f_i", "f_i.alt", "uni0061", "uni0061.1", "u1F600", "uni00610062", "a_b", "A-cy", "x@y", "naïve", "L" * 70,
            "f", "i", "_part", "a.alt.1", "b.alt", "a.1", "ab", "a-b", "ab.1", "one", "two", LONGLIG, "A", "uni0041"]
CPS = [0x61, 0x62, 0x66, 0x69, 0x1F600, 0x410, 0x41, 0x31, 0x32, 0x0]
EXTRA_CPS = [0x3A9, 0x2126, 0x263A, 0x212A, 0x4B, 0x1F601, 0x100, 0x20]
LEGAL = re.compile(r"^[0-9A-Za-z_.]*$")
INVALID = re.compile(r"[^0-9a-zA-Z_.]")


@st.composite
def _case(draw):
    names = draw(st.lists(st.sampled_from(NAMEPOOL), min_size=2, max_size=10, unique=True))
    if LONGLIG in names and "A-cy" not in names:
        names.append("A-cy")
    cps = draw(st.lists(st.sampled_from(CPS), unique=True, max_size=len(names)))
    perm = draw(st.permutations(names))
    glyphs = []
    extra = list(draw(st.permutations(EXTRA_CPS)))
    for i, n in enumerate(perm):
        us = [cps[i]] if i < len(cps) else []
        if us and extra and draw(st.sampled_from([False, False, True])):
            # several code points on one glyph, in source order: the first one (not the smallest) names the glyph
            us = list(draw(st.permutations(us + [extra.pop() for _ in range(min(len(extra), draw(st.integers(1, 2))))])))
        glyphs.append({"name": n, "width": 500 + i, "unicodes": us, "contours": [[[0, 0, "line"], [100 + i, 0, "line"], [100, 100 + 3 * i, "line"]]]})
    if draw(st.booleans()):
        glyphs.append({"name": "comp", "width": 300, "components": [{"base": perm[0], "t": [1, 0, 0, 1, 10, 0]}]})
    spec = {"info": {"unitsPerEm": 1000}, "glyphs": glyphs, "lib": {}}
    safe = [g["name"] for g in glyphs if re.fullmatch(r"[A-Za-z0-9._]+", g["name"]) and len(g["name"]) < 60]
    if len(safe) >= 2:
        spec["kerning"] = [[safe[0], safe[1], -20]]
        spec["features"] = "feature liga { sub %s by %s; } liga;\n" % (safe[0], safe[1])
    if draw(st.booleans()):
        vals = st.sampled_from(["a", "uni0061", "A", "x y", "", "f_i", "Z#", "uniFFFF", "b", "one", "two", "ab", "ab.1", "a.1", "Q" * 70 + "-x", "R" * 63, "S" * 62 + "-t", "T" * 64])
        spec["lib"]["public.postscriptNames"] = {n: draw(vals) for n in perm if draw(st.booleans())}
    case = {"spec": spec, "module": draw(st.sampled_from(["ufoLib2", "defcon"])), "flavour": draw(st.sampled_from(["ttf", "cff", "cff2"]))}
    sw = draw(st.sampled_from(["arg", "arg", "lib-useProductionNames", "lib-keepGlyphNames", "glyphs-legacy", "lib-keepGlyphNames-false"]))
    case["switch"] = sw
    return case


def strategy(tier):
    return _case()


def sample_view(case):
    sp = case["spec"]
    return {"module": case["module"], "flavour": case["flavour"], "switch": case["switch"],
            "glyphs": [[g["name"][:40], g.get("unicodes")] for g in sp["glyphs"]], "postscriptNames": sp["lib"].get("public.postscriptNames")}


def expected_name(spec, name, gi=None):
    """local restatement of the documented naming rule -> name before stripping / de-duplication"""
    gi = gi or R.glyph_index(spec)
    ps = spec["lib"].get("public.postscriptNames")
    g = gi[name]
    if ps:
        return ps.get(name) or name
    if g.get("unicodes"):
        u = g["unicodes"][0]
        return ("u%04X" if u > 0xFFFF else "uni%04X") % u
    base, dot, suffix = name.rpartition(".")
    if dot and base in gi:
        return expected_name(spec, base, gi) + "." + suffix
    head, dot, rest = name.partition(".")
    parts = ["%s.%s" % (p, rest) for p in head.split("_")] if dot else name.split("_")
    if len(parts) > 1 and all(p in gi for p in parts):
        us = [(gi[p].get("unicodes") or [None])[0] for p in parts]
        if all(u and u <= 0xFFFF for u in us):
            return "uni" + "".join("%04X" % u for u in us)
        return "_".join(expected_name(spec, p, gi) for p in parts)
    return name


def tables(t):
    b = io.BytesIO()
    t.save(b)
    from fontTools.ttLib import TTFont

    t2 = TTFont(io.BytesIO(b.getvalue()))
    return t2, {k: t2.reader[k] for k in t2.reader.keys()}


def compile_pair(case):
    import ufo2ft

    spec, flavour, sw = case["spec"], case["flavour"], case["switch"]
    module = S.ufo_module(case["module"])
    kw = {"cffVersion": 2} if flavour == "cff2" else {}
    comp = ufo2ft.compileTTF if flavour == "ttf" else ufo2ft.compileOTF
    out = []
    for on in (False, True):
        sp = dict(spec)
        sp["lib"] = dict(spec["lib"])
        ckw = dict(kw)
        if sw == "arg":
            ckw["useProductionNames"] = on
        elif sw == "lib-useProductionNames":
            sp["lib"]["com.github.googlei18n.ufo2ft.useProductionNames"] = on
        elif sw == "lib-keepGlyphNames":
            sp["lib"]["com.github.googlei18n.ufo2ft.keepGlyphNames"] = True
            ckw["useProductionNames"] = on
        elif sw == "lib-keepGlyphNames-false":
            # the lib asks to drop glyph names, the explicit argument overrides the lib altogether
            sp["lib"]["com.github.googlei18n.ufo2ft.keepGlyphNames"] = False
            ckw["useProductionNames"] = on
        elif sw == "glyphs-legacy":
            sp["lib"]["com.schriftgestaltung.Don't use Production Names"] = not on
        with guard("compile (production names %s)" % ("on" if on else "off")):
            out.append(tables(comp(S.build(sp, module), **ckw)))
    return out


def run_case(case, ctx):
    spec, flavour = case["spec"], case["flavour"]
    (a, ta), (b, tb) = compile_pair(case)
    if set(ta) != set(tb):
        raise Violation("set of tables differs", off=sorted(ta), on=sorted(tb))
    carriers = ("post", "CFF ") if flavour == "cff" else ("post",)
    for k in ta:
        if k in carriers:
            continue
        x, y = ta[k], tb[k]
        if k == "head":
            x = x[:8] + b"\0\0\0\0" + x[12:]
            y = y[:8] + b"\0\0\0\0" + y[12:]
        if x != y:
            raise Violation("table %s differs between production names on and off" % k)
    if flavour == "cff":
        if ta["post"] != tb["post"]:
            raise Violation("post table (format 3) differs for CFF")
        # charstrings and widths by glyph index
        oa, ob = a.getGlyphOrder(), b.getGlyphOrder()
        gsa, gsb = a.getGlyphSet(), b.getGlyphSet()
        for i, (na, nb) in enumerate(zip(oa, ob)):
            if otread.draw_cycles(gsa, na) != otread.draw_cycles(gsb, nb):
                raise Violation("CFF outline at a glyph index differs after renaming", index=i, name_off=na, name_on=nb)
            if otread.charstring_width(a, na) != otread.charstring_width(b, nb):
                raise Violation("CFF charstring width at a glyph index differs after renaming", index=i, name_off=na, name_on=nb)
        tda, tdb = a["CFF "].cff.topDictIndex[0], b["CFF "].cff.topDictIndex[0]
        for attr in ("FontBBox", "FontMatrix", "FullName", "FamilyName", "Weight", "version", "Notice", "isFixedPitch", "ItalicAngle", "UnderlinePosition", "UnderlineThickness"):
            if getattr(tda, attr, None) != getattr(tdb, attr, None):
                raise Violation("CFF top dict value differs", field=attr)
    src_order = a.getGlyphOrder()
    names = b.getGlyphOrder()
    if len(names) != len(src_order):
        raise Violation("number of glyphs differs")
    if case["switch"] == "glyphs-legacy" and "public.postscriptNames" not in spec["lib"]:
        # documented default: without an explicit switch, production names are used only when public.postscriptNames is present
        if names != src_order:
            raise Violation("glyphs renamed although neither a switch nor public.postscriptNames asks for it", off=src_order, on=names)
        ctx.label("legacy-switch-without-postscriptNames")
    elif flavour != "cff2":
        if len(set(names)) != len(names):
            raise Violation("final glyph names are not unique", names=names)
        gi = R.glyph_index(spec)
        renamed = collision = 0
        for old, new in zip(src_order, names):
            if not LEGAL.match(new):
                raise Violation("final glyph name contains characters illegal in PostScript names", source=old, final=new)
            if old not in gi:
                continue  # generated glyph (.notdef)
            exp = expected_name(spec, old)
            stripped = INVALID.sub("", exp)
            if len(stripped) > 63 and exp != old:
                stripped = INVALID.sub("", old)
            if new != stripped:
                if not re.fullmatch(re.escape(stripped) + r"\.\d+", new):
                    raise Violation("final glyph name is neither the expected production name nor a de-duplicated form of it", source=old, final=new, expected=stripped)
                collision += 1
            if new != old:
                renamed += 1
        if renamed:
            ctx.label("renamed")
        if collision:
            ctx.label("collision")
        illegal = any(not LEGAL.match(g["name"]) for g in spec["glyphs"])
        if illegal:
            ctx.label("illegal-char-in-source")
        ctx.nontrivial(renamed and (collision or illegal))
    else:
        ctx.nontrivial(True)
    if spec["lib"].get("public.postscriptNames"):
        ctx.label("postscriptNames")
    if any(len(g.get("unicodes") or []) > 1 and g["unicodes"][0] != min(g["unicodes"]) for g in spec["glyphs"]):
        ctx.label("first-code-point-not-smallest")
    ctx.label(flavour)
    ctx.label("switch=" + case["switch"])


MANIFEST = {
    "technique": "property-based differential testing (Hypothesis): production names on vs off, raw table bytes; local restatement of the naming rule",
    "text": "Generated name sets, code points and postscriptNames maps; the font is compiled with production names on and off and all tables other than the "
    "name carriers must be byte-identical (CFF compared by glyph index); final names are checked for uniqueness, legality and against a local restatement "
    "of the documented rule. Counterexample search only.",
    "note": "Trusts fontTools' sfnt reader and CFF decompiler. The 63-character limit is only warned about by ufo2ft and is not enforced here.",
}
