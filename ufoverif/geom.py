"""flattening and distances (pure python)"""
import math

def _flat_quad(p0, p1, p2, tol, out, depth=0):
    # deviation of control point from chord midpoint
    dx = p0[0] - 2 * p1[0] + p2[0]; dy = p0[1] - 2 * p1[1] + p2[1]
    if depth >= 9 or (dx * dx + dy * dy) <= (4 * tol) ** 2:   # max deviation = |d2|/4
        out.append(p2); return
    a = ((p0[0] + p1[0]) / 2, (p0[1] + p1[1]) / 2); b = ((p1[0] + p2[0]) / 2, (p1[1] + p2[1]) / 2)
    m = ((a[0] + b[0]) / 2, (a[1] + b[1]) / 2)
    _flat_quad(p0, a, m, tol, out, depth + 1); _flat_quad(m, b, p2, tol, out, depth + 1)

def _flat_cubic(p0, p1, p2, p3, tol, out, depth=0):
    d1x = p0[0] - 2 * p1[0] + p2[0]; d1y = p0[1] - 2 * p1[1] + p2[1]
    d2x = p1[0] - 2 * p2[0] + p3[0]; d2y = p1[1] - 2 * p2[1] + p3[1]
    m = max(d1x * d1x + d1y * d1y, d2x * d2x + d2y * d2y)
    if depth >= 9 or m <= (4 * tol / 3) ** 2:       # max deviation <= 3/4 * max|d2|
        out.append(p3); return
    a = ((p0[0] + p1[0]) / 2, (p0[1] + p1[1]) / 2); b = ((p1[0] + p2[0]) / 2, (p1[1] + p2[1]) / 2); c = ((p2[0] + p3[0]) / 2, (p2[1] + p3[1]) / 2)
    ab = ((a[0] + b[0]) / 2, (a[1] + b[1]) / 2); bc = ((b[0] + c[0]) / 2, (b[1] + c[1]) / 2)
    mid = ((ab[0] + bc[0]) / 2, (ab[1] + bc[1]) / 2)
    _flat_cubic(p0, a, ab, mid, tol, out, depth + 1); _flat_cubic(mid, bc, c, p3, tol, out, depth + 1)

def flatten_cycle(c, tol=0.02):
    """(start, segs[, closed]) with segs covering the full cycle -> closed polyline [p...] (first == last)"""
    start, segs = c[0], c[1]
    out = [start]; cur = start
    for op, pts in segs:
        if op == "line":
            out.append(pts[0])
        elif op.startswith("curve"):
            _flat_cubic(cur, pts[0], pts[1], pts[2], tol, out)
        else:
            offs, end = pts[:-1], pts[-1]
            p0 = cur
            for i, q in enumerate(offs):
                p1 = end if i + 1 == len(offs) else ((q[0] + offs[i + 1][0]) / 2, (q[1] + offs[i + 1][1]) / 2)
                _flat_quad(p0, q, p1, tol, out); p0 = p1
        cur = pts[-1]
    if out[-1] != out[0]:
        out.append(out[0])
    return out

def _pt_seg(p, a, b):
    vx, vy = b[0] - a[0], b[1] - a[1]; wx, wy = p[0] - a[0], p[1] - a[1]
    L = vx * vx + vy * vy
    t = 0 if L == 0 else max(0, min(1, (wx * vx + wy * vy) / L))
    dx, dy = a[0] + t * vx - p[0], a[1] + t * vy - p[1]
    return dx * dx + dy * dy

def directed(polyA, polyB, refine=True):
    """max over vertices (and edge midpoints) of A of distance to polyline B (an under-estimate of Hausdorff)"""
    pts = list(polyA)
    if refine:
        pts += [((a[0] + b[0]) / 2, (a[1] + b[1]) / 2) for a, b in zip(polyA, polyA[1:])]
    segsB = list(zip(polyB, polyB[1:])) or [(polyB[0], polyB[0])]
    worst = 0
    for p in pts:
        d = min(_pt_seg(p, a, b) for a, b in segsB)
        if d > worst: worst = d
    return math.sqrt(worst)

def two_sided(polyA, polyB):
    return max(directed(polyA, polyB), directed(polyB, polyA))

def _subdivide(poly, maxlen):
    out = [poly[0]]
    for a, b in zip(poly, poly[1:]):
        L = math.hypot(b[0] - a[0], b[1] - a[1])
        k = int(L // maxlen) + 1
        for i in range(1, k + 1):
            out.append((a[0] + (b[0] - a[0]) * i / k, a[1] + (b[1] - a[1]) * i / k))
    return out

def within(polyA, polyB, tol):
    """True iff every vertex of (subdivided) A has a point of polyline B within tol. Grid accelerated.
    Returns (ok, worst_point)"""
    cell = max(tol, 0.5) * 4
    B = _subdivide(polyB, cell)          # chords no longer than a cell -> a chord touches <= 2x2 cells around its ends
    grid = {}
    for i, (a, b) in enumerate(zip(B, B[1:])):
        for p in (a, b):
            grid.setdefault((int(math.floor(p[0] / cell)), int(math.floor(p[1] / cell))), set()).add(i)
    if len(B) == 1:
        grid.setdefault((int(math.floor(B[0][0] / cell)), int(math.floor(B[0][1] / cell))), set()).add(0)
        B = B + B
    A = _subdivide(polyA, cell)
    t2 = tol * tol
    for p in A:
        cx, cy = int(math.floor(p[0] / cell)), int(math.floor(p[1] / cell))
        cand = set()
        for dx in (-1, 0, 1):
            for dy in (-1, 0, 1):
                cand |= grid.get((cx + dx, cy + dy), set())
        if not any(_pt_seg(p, B[i], B[i + 1]) <= t2 for i in cand):
            return False, p
    return True, None

def tt_contour_cycle(coords, flags_on):
    """TrueType contour (points, on-curve booleans) -> (start, segs) full cycle"""
    n = len(coords)
    if n == 0: return None
    pts = [(float(x), float(y)) for x, y in coords]
    if not any(flags_on):
        start = ((pts[-1][0] + pts[0][0]) / 2, (pts[-1][1] + pts[0][1]) / 2)
        return (start, [("qcurve", pts + [start])])
    i0 = flags_on.index(True)
    order = [(i0 + 1 + k) % n for k in range(n)]
    start = pts[i0]; segs = []; cur = []
    for i in order:
        if flags_on[i]:
            segs.append(("qcurve", cur + [pts[i]]) if cur else ("line", [pts[i]])); cur = []
        else:
            cur.append(pts[i])
    return (start, segs)


def tt_contour_cycle_flags(coords, flags):
    """TrueType contour with raw flags (bit0 on-curve, bit7 cubic off-curve, glyf format 1) -> (start, segs)"""
    n = len(coords)
    if n == 0:
        return None
    on = [bool(f & 1) for f in flags]
    if not any(f & 0x80 for f in flags):
        return tt_contour_cycle(coords, on)
    pts = [(float(x), float(y)) for x, y in coords]
    if not any(on):
        # all cubic off-curves: start at the implied on-curve between the last and first pairs
        start = ((pts[-1][0] + pts[0][0]) / 2, (pts[-1][1] + pts[0][1]) / 2)
        order = list(range(n))
        closing_on = start
        i0 = None
    else:
        i0 = on.index(True)
        start = pts[i0]
        order = [(i0 + 1 + k) % n for k in range(n)]
        closing_on = None
    segs = []
    cur = []
    curcubic = False

    def emit(offs, cubic, end):
        if not offs:
            segs.append(("line", [end]))
        elif not cubic:
            segs.append(("qcurve", offs + [end]))
        else:
            assert len(offs) % 2 == 0, "odd number of cubic off-curve points"
            for k in range(0, len(offs), 2):
                last = k + 2 == len(offs)
                e = end if last else ((offs[k + 1][0] + offs[k + 2][0]) / 2, (offs[k + 1][1] + offs[k + 2][1]) / 2)
                segs.append(("curve", [offs[k], offs[k + 1], e]))

    for i in order:
        if on[i]:
            emit(cur, curcubic, pts[i])
            cur = []
        else:
            cur.append(pts[i])
            curcubic = bool(flags[i] & 0x80)
    if cur:
        emit(cur, curcubic, closing_on if closing_on is not None else start)
    return (start, segs)
