"""Read back compiled fonts with our own pen objects."""
class CyclePen:
    """segment pen collecting cyclic contours (start, segs, closed)"""
    def __init__(self, glyphset=None):
        self.glyphset = glyphset
        self.contours = []; self._start = None; self._segs = None; self._cur = None
    def moveTo(self, pt):
        self._flush(False)
        self._start = tuple(pt); self._segs = []; self._cur = tuple(pt)
    def lineTo(self, pt):
        self._segs.append(("line", [tuple(pt)])); self._cur = tuple(pt)
    def curveTo(self, *pts):
        assert len(pts) == 3, pts
        self._segs.append(("curve", [tuple(p) for p in pts])); self._cur = tuple(pts[-1])
    def qCurveTo(self, *pts):
        self._segs.append(("qcurve", [None if p is None else tuple(p) for p in pts])); self._cur = pts[-1]
    def closePath(self): self._flush(True)
    def endPath(self): self._flush(False)
    def addComponent(self, name, t, **k):
        if self.glyphset is None: raise AssertionError("unexpected component")
        sub = CyclePen(self.glyphset); self.glyphset[name].draw(sub); sub._flush(False)
        xx, xy, yx, yy, dx, dy = t
        f = lambda p: None if p is None else (xx * p[0] + yx * p[1] + dx, xy * p[0] + yy * p[1] + dy)
        for st, segs, cl in sub.contours:
            self.contours.append((f(st), [(op, [f(p) for p in pts]) for op, pts in segs], cl))
    def _flush(self, closed):
        if self._start is None: return
        self.contours.append((self._start, self._segs, closed))
        self._start = None

def draw_cycles(glyphset, name):
    pen = CyclePen(glyphset); glyphset[name].draw(pen); pen._flush(False)
    return pen.contours


def charstring_width(ttfont, name):
    """advance width as encoded in a CFF1 charstring (nominalWidthX + operand, or defaultWidthX)"""
    td = ttfont["CFF "].cff.topDictIndex[0]
    cs = td.CharStrings[name]

    class _Null:
        def moveTo(self, *a): pass
        def lineTo(self, *a): pass
        def curveTo(self, *a): pass
        def qCurveTo(self, *a): pass
        def closePath(self): pass
        def endPath(self): pass

    cs.draw(_Null())
    return cs.width
