"""Hypothesis strategies producing FontSpecs."""
from hypothesis import strategies as st
import math

def coord(large=False):
    if large:
        return st.one_of(st.sampled_from([16000, -16000, 15999.5, -15999.5]), st.integers(-16000, 16000), coord())
    return st.one_of(
        st.integers(-40, 40),
        st.integers(-1200, 1200),
        st.integers(-600, 600).map(lambda k: k + 0.5),
        st.integers(-60000, 60000).map(lambda k: k / 100),
        st.integers(-3000, 3000).map(lambda k: k / 8),
        st.sampled_from([0.5, -0.5, 1.5, -1.5, 0.49999, -0.50001, 2.5, -2.5]),
    )
def point(large=False):
    return st.tuples(coord(large), coord(large))

@st.composite
def contour(draw, kinds=("line", "curve", "qcurve"), allow_open=True, degenerate=True, large=False):
    nseg = draw(st.integers(2, 6))
    segs = []
    _pt = point(large)
    _co = coord(large)
    prev = draw(_pt)
    first = prev
    for i in range(nseg):
        kind = draw(st.sampled_from(kinds))
        mode = draw(st.integers(0, 9)) if degenerate else 9
        if mode == 0:   end = prev                      # zero-length
        elif mode == 1: end = (draw(_co), prev[1])   # horizontal
        elif mode == 2: end = (prev[0], draw(_co))   # vertical
        else:           end = draw(_pt)
        if kind == "line":
            segs.append(("line", [end]))
        elif kind == "curve":
            if mode == 0 and draw(st.booleans()):
                segs.append(("curve", [prev, prev, end]))
            else:
                segs.append(("curve", [draw(_pt), draw(_pt), end]))
        else:
            k = draw(st.integers(1, 3))
            segs.append(("qcurve", [draw(_pt) for _ in range(k)] + [end]))
        prev = end
    is_open = allow_open and draw(st.integers(0, 7)) == 0
    pts = []
    if is_open:
        pts.append((first[0], first[1], "move"))
        for op, ps in segs:
            for p in ps[:-1]: pts.append((p[0], p[1], None))
            pts.append((ps[-1][0], ps[-1][1], op))
        return pts
    # closed: the last segment returns to `first`; layout A: start with the on-curve `first`
    # carrying the type of the closing segment, whose off-curves trail at the end; layout B: rotate
    # so the list starts with off-curves.
    closing = segs[-1]
    body = segs[:-1]
    pts.append((first[0], first[1], closing[0]))
    for op, ps in body:
        for p in ps[:-1]: pts.append((p[0], p[1], None))
        pts.append((ps[-1][0], ps[-1][1], op))
    for p in closing[1][:-1]:
        pts.append((p[0], p[1], None))
    if draw(st.integers(0, 3)) == 0 and len(pts) > 1:
        r = draw(st.integers(1, len(pts) - 1))
        pts = pts[r:] + pts[:r]
    return pts

def transform():
    ang = st.integers(0, 359).map(lambda d: math.radians(d))
    sc = st.sampled_from([1, 1, 0.5, 2, 1.5, 0.75, -1, -0.5, 3, 0.25, 1.99, 2.5])
    off = st.one_of(st.integers(-500, 500), st.integers(-1000, 1000).map(lambda k: k / 2), st.integers(-5000, 5000).map(lambda k: k / 10))
    def rot(a): return (math.cos(a), math.sin(a), -math.sin(a), math.cos(a))
    two = st.one_of(
        st.just((1, 0, 0, 1)), st.just((1, 0, 0, 1)),
        st.tuples(sc, sc).map(lambda s: (s[0], 0, 0, s[1])),
        st.sampled_from([(-1, 0, 0, 1), (1, 0, 0, -1), (-1, 0, 0, -1), (0, 1, -1, 0), (0, 1, 1, 0)]),
        ang.map(rot),
        st.tuples(sc, st.integers(-10, 10).map(lambda k: k / 10), st.integers(-10, 10).map(lambda k: k / 10), sc)
          .filter(lambda m: abs(m[0] * m[3] - m[1] * m[2]) > 1e-3),
    )
    general = st.tuples(two, off, off).map(lambda t: [*t[0], t[1], t[2]])
    # the exact identity (no offset at all) is its own class: "fast paths" for untransformed references hide there
    return st.one_of(general, general, general, general, general, general, st.just([1, 0, 0, 1, 0, 0]))

NAMES = ["a", "b", "c", "d", "e", "f", "g", "h", "i", "j", "k", "l", "m", "n", "o", "p"]

def width():
    return st.one_of(st.integers(0, 1200), st.integers(0, 2400).map(lambda k: k / 2), st.integers(0, 120000).map(lambda k: k / 100),
                     st.sampled_from([0, 0.5, 499.5, -0.4, 500, 500, 600]))

@st.composite
def outline_font(draw, max_glyphs=8, kinds=("line", "curve", "qcurve"), allow_open=True, mixed=True, notdef=None):
    n = draw(st.integers(1, max_glyphs))
    glyphs = []
    for i in range(n):
        name = NAMES[i]
        g = {"name": name, "width": draw(width()), "unicodes": [0x61 + i] if draw(st.booleans()) else []}
        role = draw(st.integers(0, 9)) if i > 0 else 0
        if role <= 3:      # simple
            big = draw(st.integers(0, 14)) == 0
            g["contours"] = draw(st.lists(contour(kinds, allow_open, large=big), min_size=0 if role == 0 and draw(st.integers(0, 5)) == 0 else 1, max_size=3))
        if role >= 4 or (mixed and role == 3 and i > 0):
            ncomp = draw(st.integers(1, 3))
            g["components"] = [{"base": NAMES[draw(st.integers(0, i - 1))], "t": draw(transform())} for _ in range(ncomp)]
            if role >= 8 and mixed:
                g["contours"] = draw(st.lists(contour(kinds, allow_open), min_size=1, max_size=2))
        glyphs.append(g)
    if notdef is None: notdef = draw(st.booleans())
    if notdef:
        glyphs.append({"name": ".notdef", "width": 500, "contours": [[(0, 0, "line"), (100, 0, "line"), (100, 100, "line")]]})
    spec = {"info": {"unitsPerEm": draw(st.sampled_from([1000, 1000, 2048]))}, "glyphs": glyphs}
    return spec
