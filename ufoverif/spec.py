"""FontSpec: plain-data description of a UFO; build() makes a defcon or ufoLib2 Font."""
import copy

def build(spec, module):
    f = module.Font()
    info = spec.get("info", {})
    for k, v in info.items():
        setattr(f.info, k, copy.deepcopy(v))
    for g in spec["glyphs"]:
        _build_glyph(f, g)
    for layer in spec.get("layers", []):
        L = f.newLayer(layer["name"])
        for g in layer["glyphs"]:
            _build_glyph(L, g)
        if layer.get("lib"):
            L.lib.update(copy.deepcopy(layer["lib"]))
    for name, members in spec.get("groups", {}).items():
        f.groups[name] = list(members)
    for l, r, v in spec.get("kerning", []):
        f.kerning[(l, r)] = v
    if spec.get("features"):
        f.features.text = spec["features"]
    for k, v in spec.get("lib", {}).items():
        f.lib[k] = copy.deepcopy(v)
    # glyphOrder last: defcon appends to it on every newGlyph
    go = spec.get("glyphOrder")
    if go is not None:
        f.glyphOrder = list(go)
    elif "public.glyphOrder" in f.lib and not spec.get("keepImplicitOrder"):
        del f.lib["public.glyphOrder"]
    return f

def _build_glyph(container, g):
    glyph = container.newGlyph(g["name"])
    glyph.width = g.get("width", 0)
    if "height" in g:
        glyph.height = g["height"]
    if g.get("verticalOrigin") is not None:
        glyph.verticalOrigin = g["verticalOrigin"]
    glyph.unicodes = list(g.get("unicodes", []))
    pen = glyph.getPointPen()
    for c in g.get("contours", []):
        pen.beginPath()
        for x, y, t in c:
            pen.addPoint((x, y), segmentType=t)
        pen.endPath()
    for comp in g.get("components", []):
        pen.addComponent(comp["base"], tuple(comp["t"]))
    for a in g.get("anchors", []):
        d = {"name": a["name"], "x": a["x"], "y": a["y"]}
        if a.get("identifier"):
            d["identifier"] = a["identifier"]
        glyph.appendAnchor(d)
    for k, v in g.get("lib", {}).items():
        glyph.lib[k] = copy.deepcopy(v)
    return glyph


def ufo_module(name):
    import importlib

    assert name in ("ufoLib2", "defcon"), name
    return importlib.import_module(name)
