"""GPOS/GDEF interpreter over 2-glyph sequences (OpenType spec semantics)."""
def gdef_class(font, g):
    gd = font.get("GDEF")
    if gd is None or gd.table.GlyphClassDef is None: return 0
    return gd.table.GlyphClassDef.classDefs.get(g, 0)
def mark_sets(font):
    gd = font.get("GDEF")
    if gd is None or getattr(gd.table, "MarkGlyphSetsDef", None) is None: return []
    return [set(c.glyphs) if c is not None else set() for c in gd.table.MarkGlyphSetsDef.Coverage]
def skipped(font, lookup, g):
    flag = lookup.LookupFlag
    cls = gdef_class(font, g)
    if flag & 0x2 and cls == 1: return True
    if flag & 0x4 and cls == 2: return True
    if cls == 3:
        if flag & 0x8: return True
        if flag & 0x10:
            return g not in mark_sets(font)[lookup.MarkFilteringSet]
        mat = flag >> 8
        if mat:
            mac = font["GDEF"].table.MarkAttachClassDef
            return (mac.classDefs.get(g, 0) if mac else 0) != mat
    return False
def script_tags(font, tableTag="GPOS"):
    if tableTag not in font or font[tableTag].table.ScriptList is None: return []
    return [r.ScriptTag for r in font[tableTag].table.ScriptList.ScriptRecord]
def langsys_features(font, tableTag, script, lang="dflt"):
    """-> list of (tag, [lookup indices]) reachable; falls back to DFLT script when tag absent"""
    if tableTag not in font: return []
    t = font[tableTag].table
    if t.ScriptList is None: return []
    recs = {r.ScriptTag: r.Script for r in t.ScriptList.ScriptRecord}
    sc = recs.get(script) or recs.get("DFLT")
    if sc is None: return []
    ls = None
    for r in sc.LangSysRecord:
        if r.LangSysTag == lang: ls = r.LangSys
    if ls is None: ls = sc.DefaultLangSys
    if ls is None: return []
    out = []
    idxs = list(ls.FeatureIndex)
    if ls.ReqFeatureIndex != 0xFFFF: idxs.append(ls.ReqFeatureIndex)
    for fi in idxs:
        fr = t.FeatureList.FeatureRecord[fi]
        out.append((fr.FeatureTag, list(fr.Feature.LookupListIndex)))
    return out
def languages_by_script(font, tableTag="GPOS"):
    """{script tag: [language tags]} of the LangSysRecords present"""
    if tableTag not in font or font[tableTag].table.ScriptList is None: return {}
    return {r.ScriptTag: [l.LangSysTag for l in r.Script.LangSysRecord] for r in font[tableTag].table.ScriptList.ScriptRecord}
def lookups_for(font, script, features, lang="dflt"):
    idx = set()
    for tag, lks in langsys_features(font, "GPOS", script, lang):
        if tag in features: idx.update(lks)
    return sorted(idx)
def _vr(v):
    if v is None: return (0, 0, 0, 0)
    return tuple(getattr(v, a, 0) or 0 for a in ("XPlacement", "YPlacement", "XAdvance", "YAdvance"))
def _subtables(lk):
    for st in lk.SubTable:
        yield st.ExtSubTable if st.LookupType == 9 else st
def eval_pair(font, g1, g2, script, features=("kern", "dist"), lenient=False, lang="dflt"):
    """-> ((xPla,yPla,xAdv,yAdv) summed on glyph 1, number of lookups that applied, second-record-nonzero?)"""
    if "GPOS" not in font: return (0, 0, 0, 0), 0, False
    t = font["GPOS"].table
    tot = [0, 0, 0, 0]; n = 0; second = False
    for li in lookups_for(font, script, features, lang):
        lk = t.LookupList.Lookup[li]
        if skipped(font, lk, g1) or skipped(font, lk, g2): continue
        for st in _subtables(lk):
            if st.LookupType != 2: continue
            if g1 not in st.Coverage.glyphs: continue
            if st.Format == 1:
                ps = st.PairSet[st.Coverage.glyphs.index(g1)]
                hit = [p for p in ps.PairValueRecord if p.SecondGlyph == g2]
                if not hit: continue
                v, v2 = _vr(hit[0].Value1), _vr(getattr(hit[0], "Value2", None))
            else:
                c1 = st.ClassDef1.classDefs.get(g1, 0); c2 = st.ClassDef2.classDefs.get(g2, 0)
                if lenient and c2 == 0: continue
                rec = st.Class1Record[c1].Class2Record[c2]
                v, v2 = _vr(rec.Value1), _vr(getattr(rec, "Value2", None))
            if v2 != (0, 0, 0, 0): second = True
            tot = [a + b for a, b in zip(tot, v)]; n += (1 if any(v) else 0)
            break
    return tuple(tot), n, second
def eval_pair_across(font, g1, mid, g2, script, features=("kern", "dist"), lang="dflt"):
    """xAdvance added to g1 in the glyph run [g1, mid, g2]: each pair lookup pairs g1 with the next glyph its LookupFlag does not skip"""
    if "GPOS" not in font: return 0
    t = font["GPOS"].table
    tot = 0
    for li in lookups_for(font, script, features, lang):
        lk = t.LookupList.Lookup[li]
        if skipped(font, lk, g1): continue
        nxt = g2 if skipped(font, lk, mid) else mid
        if nxt == g2 and skipped(font, lk, g2): continue
        for st in _subtables(lk):
            if st.LookupType != 2: continue
            if g1 not in st.Coverage.glyphs: continue
            if st.Format == 1:
                ps = st.PairSet[st.Coverage.glyphs.index(g1)]
                hit = [p for p in ps.PairValueRecord if p.SecondGlyph == nxt]
                if not hit: continue
                v = _vr(hit[0].Value1)
            else:
                c1 = st.ClassDef1.classDefs.get(g1, 0); c2 = st.ClassDef2.classDefs.get(nxt, 0)
                v = _vr(st.Class1Record[c1].Class2Record[c2].Value1)
            tot += v[2]
            break
    return tot
def _axy(a): return (a.XCoordinate, a.YCoordinate)
def eval_attach(font, g1, g2, script, comp=None, features=("mark", "mkmk", "abvm", "blwm")):
    """-> (kind, (dx,dy)) of the last applying attachment of mark g2 to g1, or None"""
    if "GPOS" not in font: return None
    t = font["GPOS"].table
    res = None
    if gdef_class(font, g2) != 3: return None
    for li in lookups_for(font, script, features):
        lk = t.LookupList.Lookup[li]
        if skipped(font, lk, g2) or skipped(font, lk, g1): continue
        c1 = gdef_class(font, g1)
        for st in _subtables(lk):
            ty = st.LookupType
            if ty == 4:
                if c1 == 3 or g2 not in st.MarkCoverage.glyphs or g1 not in st.BaseCoverage.glyphs: continue
                mr = st.MarkArray.MarkRecord[st.MarkCoverage.glyphs.index(g2)]
                ba = st.BaseArray.BaseRecord[st.BaseCoverage.glyphs.index(g1)].BaseAnchor[mr.Class]
                if ba is None: continue
                b, m = _axy(ba), _axy(mr.MarkAnchor); res = ("base", (b[0] - m[0], b[1] - m[1])); break
            elif ty == 5:
                if c1 == 3 or g2 not in st.MarkCoverage.glyphs or g1 not in st.LigatureCoverage.glyphs: continue
                mr = st.MarkArray.MarkRecord[st.MarkCoverage.glyphs.index(g2)]
                la = st.LigatureArray.LigatureAttach[st.LigatureCoverage.glyphs.index(g1)]
                ci = (comp - 1) if comp is not None else la.ComponentCount - 1
                if ci >= la.ComponentCount: continue
                ba = la.ComponentRecord[ci].LigatureAnchor[mr.Class]
                if ba is None: continue
                b, m = _axy(ba), _axy(mr.MarkAnchor); res = ("lig", (b[0] - m[0], b[1] - m[1])); break
            elif ty == 6:
                if c1 != 3 or g2 not in st.Mark1Coverage.glyphs or g1 not in st.Mark2Coverage.glyphs: continue
                mr = st.Mark1Array.MarkRecord[st.Mark1Coverage.glyphs.index(g2)]
                ba = st.Mark2Array.Mark2Record[st.Mark2Coverage.glyphs.index(g1)].Mark2Anchor[mr.Class]
                if ba is None: continue
                b, m = _axy(ba), _axy(mr.MarkAnchor); res = ("mark", (b[0] - m[0], b[1] - m[1])); break
    return res
