"""Generators for 'rich' fonts (outlines + layout data + lib data) and compatible master families, and builders that turn
their JSON descriptions into UFO objects / DesignSpaceDocuments."""
import copy
import math

from hypothesis import strategies as st

from ufoverif import gen, spec as S

POOL = [
    ("A", 0x41), ("B", 0x42), ("V", 0x56), ("o", 0x6F), ("period", 0x2E), ("alef-ar", 0x627), ("beh-ar", 0x628),
    ("ka-deva", 0x915), ("be-cy", 0x431), ("u1", None), ("one", 0x31),
]
MARKPOOL = [("acutecomb", 0x301), ("dotbelowcomb", 0x323), ("fatha-ar", 0x64E)]


def chance(draw, num, den):
    return draw(st.sampled_from([True] * num + [False] * (den - num)))


@st.composite
def rich_font(draw, max_base=5, kinds=("line", "curve"), with_layers=True, with_lib=True, with_fea=True):
    """spec of a small font with outlines, composites (plain, nested, mixed, mirrored), anchors, kerning + groups, feature text and lib data"""
    bases = draw(st.lists(st.sampled_from(POOL), min_size=2, max_size=max_base, unique=True))
    marks = draw(st.lists(st.sampled_from(MARKPOOL), min_size=0, max_size=2, unique=True))
    glyphs = []

    def shape(n):
        return draw(st.lists(gen.contour(kinds, allow_open=False, degenerate=False), min_size=1, max_size=n))

    for n, u in bases:
        g = {"name": n, "width": draw(st.sampled_from([500, 600, 450.5, 720])), "unicodes": [u] if u else [], "contours": shape(2), "anchors": []}
        if chance(draw, 1, 2):
            g["anchors"].append({"name": "top", "x": draw(gen.coord()), "y": draw(gen.coord())})
        if chance(draw, 1, 3):
            g["anchors"].append({"name": "bottom", "x": draw(gen.coord()), "y": draw(gen.coord())})
        if n.endswith("-ar") and chance(draw, 1, 2):
            g["anchors"].append({"name": "entry", "x": draw(gen.coord()), "y": 0})
            g["anchors"].append({"name": "exit", "x": 0, "y": 0})
        glyphs.append(g)
    for n, u in marks:
        g = {"name": n, "width": draw(st.sampled_from([0, 0, 300])), "unicodes": [u], "contours": shape(1), "anchors": [{"name": "_top" if n != "dotbelowcomb" else "_bottom", "x": draw(gen.coord()), "y": draw(gen.coord())}]}
        if chance(draw, 1, 2):
            g["anchors"].append({"name": "top" if n != "dotbelowcomb" else "bottom", "x": draw(gen.coord()), "y": draw(gen.coord())})
        glyphs.append(g)
    simple = [g["name"] for g in glyphs]
    # composites
    ncomp = draw(st.integers(0, 3))
    for i in range(ncomp):
        kind = draw(st.sampled_from(["plain", "plain", "nested", "mixed", "mirrored"]))
        name = "comp%d" % i
        pool = simple + ["comp%d" % j for j in range(i)] if kind == "nested" else simple
        comps = [{"base": draw(st.sampled_from(pool)), "t": draw(gen.transform()) if kind != "plain" else [1, 0, 0, 1, draw(st.integers(-200, 200)), draw(st.integers(-200, 200))]} for _ in range(draw(st.integers(1, 2)))]
        if kind == "mirrored":
            comps[0]["t"] = [-1, 0, 0, 1, 300, 0]
        g = {"name": name, "width": draw(st.sampled_from([500, 640])), "unicodes": [0xC0 + i] if chance(draw, 1, 2) else [], "components": comps, "anchors": []}
        if kind == "mixed":
            g["contours"] = shape(1)
        glyphs.append(g)
    if chance(draw, 1, 2):
        glyphs.append({"name": ".notdef", "width": 500, "contours": [[[0, 0, "line"], [100, 0, "line"], [100, 100, "line"]]]})
    names = [g["name"] for g in glyphs if g["name"] != ".notdef"]
    groups, kerning = {}, []
    if chance(draw, 2, 3):
        for side in ("public.kern1.", "public.kern2."):
            members = draw(st.lists(st.sampled_from(names), unique=True, max_size=4))
            k = draw(st.integers(1, 2))
            for i, m in enumerate(members):
                groups.setdefault(side + "g%d" % (i % k), []).append(m)
        k1 = [n for n in groups if n.startswith("public.kern1.")]
        k2 = [n for n in groups if n.startswith("public.kern2.")]
        val = st.one_of(st.integers(-80, 80), st.sampled_from([-12.5, 7.5]))
        kerning = [list(k) for k in draw(st.lists(st.tuples(st.sampled_from(names + k1), st.sampled_from(names + k2), val), max_size=6, unique_by=lambda t: (t[0], t[1])))]
    info = {"unitsPerEm": 1000, "familyName": "Test", "styleName": "Regular"}
    if with_lib and chance(draw, 1, 2):
        # list- and dict-valued info attributes that a table builder could modify in place
        info.update(draw(st.fixed_dictionaries({}, optional={
            "openTypeOS2Selection": st.sampled_from([[7], [7, 8], [1]]),
            "openTypeOS2Type": st.sampled_from([[2], [3, 8]]),
            "openTypeOS2Panose": st.just([2, 0, 5, 3, 0, 0, 0, 0, 0, 0]),
            "openTypeOS2UnicodeRanges": st.just([0, 1, 2]),
            "openTypeOS2CodePageRanges": st.just([0, 1]),
            "openTypeOS2FamilyClass": st.just([1, 2]),
            "openTypeHeadFlags": st.just([0, 1, 3]),
            "postscriptBlueValues": st.sampled_from([[-10, 0, 500, 510], [-10.5, 0, 500.25, 510]]),  # zone edges may be fractional
            "postscriptStemSnapH": st.sampled_from([[80, 90], [80.5, 90]]),
            "postscriptStemSnapV": st.just([70, 85.75]),
            "openTypeNameRecords": st.just([{"nameID": 19, "platformID": 3, "encodingID": 1, "languageID": 1033, "string": "Sample"}]),
            "openTypeGaspRangeRecords": st.just([{"rangeMaxPPEM": 8, "rangeGaspBehavior": [0, 1]}, {"rangeMaxPPEM": 65535, "rangeGaspBehavior": [1]}]),
            "styleMapStyleName": st.sampled_from(["regular", "bold", "italic"]),
        })))
    spec = {"info": info, "glyphs": glyphs, "groups": groups, "kerning": kerning, "lib": {}}
    if with_fea and chance(draw, 2, 3):
        fea = ""
        if chance(draw, 1, 2):
            fea += "languagesystem DFLT dflt;\nlanguagesystem latn dflt;\n"
            if any(n.endswith("-ar") for n in names):
                fea += "languagesystem arab dflt;\n"
        if len(simple) >= 3 and chance(draw, 1, 2):
            fea += "feature liga {\n  sub %s %s by %s;\n} liga;\n" % (simple[0], simple[1], simple[2])
        spec["features"] = fea
    if with_lib:
        lib = spec["lib"]
        if chance(draw, 1, 3):
            used = [c["base"] for g in glyphs for c in g.get("components", [])]
            cand = [n for n in names if n in used] or names
            skip = [draw(st.sampled_from(cand))]
            if "features" not in spec or not any(s in spec.get("features", "") for s in skip):
                lib["public.skipExportGlyphs"] = skip
        if chance(draw, 1, 3):
            lib["public.openTypeCategories"] = {n: ("mark" if n in dict(MARKPOOL) else "base") for n in names if chance(draw, 3, 4)}
        if chance(draw, 1, 3):
            lib["public.postscriptNames"] = {n: n.replace("-", "") + ".ps" for n in names if chance(draw, 1, 2)}
        if chance(draw, 1, 3):
            lib["com.github.googlei18n.ufo2ft.filters"] = draw(
                st.lists(
                    st.sampled_from(
                        [
                            {"name": "propagateAnchors", "pre": True},
                            {"name": "sortContours"},
                            {"name": "flattenComponents", "pre": True},
                            {"name": "decomposeTransformedComponents", "pre": True},
                            {"name": "transformations", "kwargs": {"OffsetX": 10, "OffsetY": -5}, "include": names[:2]},
                            {"name": "transformations", "kwargs": {"ScaleX": 110, "Origin": 2}, "exclude": names[:1]},
                            {"name": "decomposeComponents", "include": names[-2:]},
                            {"name": "reverseContourDirection", "include": names[:1]},
                            {"name": "DottedCircle", "pre": True},
                        ]
                    ),
                    min_size=1,
                    max_size=2,
                )
            )
        if any(f.get("name") == "DottedCircle" for f in lib.get("com.github.googlei18n.ufo2ft.filters", [])) and chance(draw, 1, 2) and "uni25CC" not in names:
            # a dotted circle that already exists but carries none of the anchors marks attach to: the filter has to add them (to its copy)
            glyphs.append({"name": "uni25CC", "width": 600, "unicodes": [0x25CC], "contours": [[[100, 100, "line"], [500, 100, "line"], [300, 500, "line"]]]})
            names.append("uni25CC")
        if chance(draw, 1, 4):
            lib["com.github.googlei18n.ufo2ft.featureWriters"] = draw(
                st.sampled_from(
                    [
                        [{"class": "KernFeatureWriter", "options": {"mode": "append"}}],
                        [{"class": "MarkFeatureWriter", "options": {"features": ["mark"], "quantization": 5}}, {"class": "KernFeatureWriter"}],
                        [{"class": "KernFeatureWriter", "options": {"ignoreMarks": False}}, {"class": "GdefFeatureWriter"}],
                    ]
                )
            )
        mapped = {u: g["name"] for g in glyphs for u in g.get("unicodes", [])}
        skipset = set(lib.get("public.skipExportGlyphs", []))
        mapped = {u: n for u, n in mapped.items() if n not in skipset}
        exported = [n for n in names if n not in skipset]
        if mapped and chance(draw, 1, 4):
            u = draw(st.sampled_from(sorted(mapped)))
            lib["public.unicodeVariationSequences"] = {"FE00": {"%04X" % u: draw(st.sampled_from(exported))}}
        if chance(draw, 1, 5):
            lib["public.openTypeMeta"] = {"dlng": ["en-Latn"], "slng": ["Latn"]}
        if chance(draw, 1, 4):
            lib["com.nagwa.MATHPlugin.constants"] = {"ScriptPercentScaleDown": 70, "AxisHeight": 250}  # MinConnectorOverlap: known finding KF-C07-1
            lib["com.nagwa.MATHPlugin.extendedShapes"] = exported[:1]
        for g in glyphs:
            if chance(draw, 1, 6):
                g["lib"] = {"public.truetype.overlap": True, "com.example.note": [1, 2.5, "x"]}
    if with_layers and with_lib and chance(draw, 1, 8):
        # colour layers (arms ExplodeColorLayerGlyphsFilter): known finding KF-C07-2
        cg = simple[0]
        lib["com.github.googlei18n.ufo2ft.colorPalettes"] = [[[1, 0, 0, 1], [0, 1, 0, 1]]]
        gl = next(g for g in glyphs if g["name"] == cg)
        gl.setdefault("lib", {})["com.github.googlei18n.ufo2ft.colorLayerMapping"] = [["color1", 0], ["color2", 1]]
        tri = [[0, 0, "line"], [60, 0, "line"], [30, 50, "line"]]
        spec["layers"] = [
            {"name": "color1", "glyphs": [{"name": cg, "width": gl["width"], "unicodes": list(gl.get("unicodes", [])), "contours": [tri]}]},
            {"name": "color2", "glyphs": [{"name": cg, "width": gl["width"], "contours": [[[10, 10, "line"], [50, 10, "line"], [30, 40, "line"]]], "components": [{"base": simple[1], "t": [1, 0, 0, 1, 5, 5]}]},
                                          {"name": simple[1], "width": 300, "unicodes": [0xE000], "contours": [tri]}]},
        ]
    elif with_layers and chance(draw, 1, 3):
        spec["layers"] = [{"name": "public.background", "lib": {"bg": [1, 2]}, "glyphs": [{"name": simple[0], "width": 10, "contours": [[[0, 0, "line"], [7, 0, "line"], [7, 9.5, "line"]]]}]}]
    return spec


# ------------------------------------------------------------------ compatible master families
def perturb(spec, k, amp=1.0, diff2x2=False, kern_jitter=True):
    """master k of a family: coordinates move as a smooth function of position (equal points stay equal in every master)"""
    m = copy.deepcopy(spec)
    m["info"] = dict(m.get("info", {}), styleName="M%d" % k)
    if k == 0:
        return m
    for gi, g in enumerate(m["glyphs"]):
        g["width"] = (g.get("width", 0) + 13 * k) if g.get("width", 0) else 0   # zero-width (non-spacing) glyphs stay zero-width in every master
        g["contours"] = [
            [[x * (1 + 0.1 * k * amp) + 7 * k * amp * math.sin(x / 97 + y / 53), y * (1 + 0.07 * k * amp) + 5 * k * amp * math.cos(x / 71 - y / 89), t] for x, y, t in c]
            for c in g.get("contours", [])
        ]
        for j, c in enumerate(g.get("components", [])):
            t = list(c["t"])
            t[4] += 11 * k
            t[5] -= 3 * k
            if diff2x2 and k == 1 and j == 0 and gi % 2:
                t[0] *= 1.1
            c["t"] = t
        for a in g.get("anchors", []):
            a["x"] = a["x"] + 9 * k
            a["y"] = a["y"] * (1 + 0.05 * k) + 4 * k
    if kern_jitter:
        m["kerning"] = [[l, r, v + 6 * k * (1 if i % 2 else -1)] for i, (l, r, v) in enumerate(m.get("kerning", []))]
    return m


def build_designspace(fam, module):
    """fam = {"base": spec, "masters": [{"k":0,"loc":{axis:val}}...], "axes":[{name,tag,minimum,default,maximum,map?}], "amp", "diff2x2",
              "sparse": {"k","loc","names"} | None, "rules": [...], "lib": {...}, "drop_kerning": {master index: [pair indices]}}
    -> (DesignSpaceDocument, [fonts])"""
    from fontTools.designspaceLib import AxisDescriptor, DesignSpaceDocument, RuleDescriptor, SourceDescriptor

    ds = DesignSpaceDocument()
    for ax in fam["axes"]:
        a = AxisDescriptor()
        a.name, a.tag = ax["name"], ax["tag"]
        a.minimum, a.default, a.maximum = ax["minimum"], ax["default"], ax["maximum"]
        if ax.get("map"):
            a.map = [tuple(p) for p in ax["map"]]
        ds.addAxis(a)
    fonts = []
    specs = master_specs(fam)
    for i, (m, sp) in enumerate(zip(fam["masters"], specs)):
        f = S.build(sp, module)
        fonts.append(f)
        s = SourceDescriptor()
        s.font = f
        s.location = dict(m["loc"])
        if fam.get("partial_locations"):
            # a source may leave out the axes on which it sits at the default
            for a in ds.axes:
                if a.name in s.location and s.location[a.name] == a.map_forward(a.default):
                    del s.location[a.name]
        s.name = "master%d" % i
        if fam.get("explicit_default_layer") == i:
            s.layerName = f.layers.defaultLayer.name   # a source that spells out the name of its font's default layer
        s.familyName = "Test"
        s.styleName = "M%d" % i
        ds.addSource(s)
    sparse = fam.get("sparse")
    if sparse:
        sp = perturb(fam["base"], sparse["k"], fam.get("amp", 1.0), False)
        s = SourceDescriptor()
        if sparse.get("own_ufo"):
            # the sparse master is a font of its own (a source without a layer name) holding only its glyphs
            # ... and the same lib (a source with other lib filters than its siblings makes the pre-processor run the filters master by master)
            f = S.build({"info": dict(sp.get("info", {})), "glyphs": [g for g in sp["glyphs"] if g["name"] in sparse["names"]], "lib": copy.deepcopy(sp.get("lib", {}))}, module)
            fonts.append(f)
            s.font = f
        else:
            f = fonts[0]
            L = f.newLayer("sparse")
            for g in sp["glyphs"]:
                if g["name"] in sparse["names"]:
                    S._build_glyph(L, g)
            s.font = f
            s.layerName = "sparse"
        s.location = dict(sparse["loc"])
        if fam.get("partial_locations"):
            for a in ds.axes:
                if a.name in s.location and s.location[a.name] == a.map_forward(a.default):
                    del s.location[a.name]
        s.name = "sparse"
        ds.addSource(s)
        if sparse.get("listed") == "second":
            # the sparse source is listed between the full masters, not after them
            ds.sources.insert(1, ds.sources.pop())
    for j, more in enumerate(fam.get("more_sparse", [])):
        # further sparse layer masters (each at its own location, holding its own few glyphs)
        sp = perturb(fam["base"], more["k"], fam.get("amp", 1.0), False)
        s = SourceDescriptor()
        L = fonts[0].newLayer("sparse%d" % (j + 2))
        for g in sp["glyphs"]:
            if g["name"] in more["names"]:
                S._build_glyph(L, g)
        s.font, s.layerName, s.name, s.location = fonts[0], "sparse%d" % (j + 2), "sparse%d" % (j + 2), dict(more["loc"])
        if fam.get("partial_locations"):
            for a in ds.axes:
                if a.name in s.location and s.location[a.name] == a.map_forward(a.default):
                    del s.location[a.name]
        ds.addSource(s)
    if fam.get("listed_reversed"):
        # the sources are listed in the opposite order (default source last); `fonts` keeps the order of fam["masters"]
        ds.sources.reverse()
    for r in fam.get("rules", []):
        rd = RuleDescriptor()
        rd.name = r["name"]
        rd.conditionSets = [[dict(c) for c in cs] for cs in r["conditionSets"]]
        rd.subs = [tuple(s) for s in r["subs"]]
        ds.addRule(rd)
    for k, v in fam.get("lib", {}).items():
        ds.lib[k] = copy.deepcopy(v)
    return ds, fonts


def master_specs(fam):
    out = []
    for i, m in enumerate(fam["masters"]):
        sp = perturb(fam["base"], m["k"], fam.get("amp", 1.0), fam.get("diff2x2", False))
        drop = (fam.get("drop_kerning") or {}).get(str(i)) or []
        if drop:
            sp["kerning"] = [p for j, p in enumerate(sp["kerning"]) if j not in drop]
        for tw in fam.get("tweaks", []):
            if tw["kind"] == "unit-step":
                # values that differ by exactly one unit between the default and the other masters: a kerning entry and an anchor of one glyph
                for j in tw.get("kerning", []):
                    if j < len(sp["kerning"]) and j < len(fam["base"]["kerning"]) and sp["kerning"][j][:2] == fam["base"]["kerning"][j][:2]:
                        sp["kerning"][j][2] = fam["base"]["kerning"][j][2] + (1 if i >= 1 else 0)
                for gname in tw.get("anchors", []):
                    g0 = next((g for g in fam["base"]["glyphs"] if g["name"] == gname), None)
                    g1 = next((g for g in sp["glyphs"] if g["name"] == gname), None)
                    if g0 and g1 and g0.get("anchors") and g1.get("anchors"):
                        g1["anchors"][0]["x"] = g0["anchors"][0]["x"] + (1 if i >= 1 else 0)
                        g1["anchors"][0]["y"] = g0["anchors"][0]["y"]
                continue
            if tw["kind"] == "const-kerning":
                # these kerning entries have the same value in every master (no per-master jitter)
                for j in tw["indices"]:
                    if j < len(sp["kerning"]) and j < len(fam["base"]["kerning"]) and sp["kerning"][j][:2] == fam["base"]["kerning"][j][:2]:
                        sp["kerning"][j][2] = fam["base"]["kerning"][j][2]
                continue
            if tw["master"] != i:
                continue
            if tw["kind"] == "extra-groups":
                # kerning groups (and a pair between them) that only this master defines
                sp["groups"] = dict(sp.get("groups", {}), **tw["groups"])
                sp["kerning"] = sp["kerning"] + [list(p) for p in tw["kerning"]]
                continue
            g = next((g for g in sp["glyphs"] if g["name"] == tw["glyph"]), None)
            if g is None:
                continue
            if tw["kind"] == "diff2x2" and tw["comp"] < len(g.get("components", [])):
                t = list(g["components"][tw["comp"]]["t"])
                if "entry" in tw:
                    # exactly one entry of the 2x2 differs in this master (xx, xy, yx or yy)
                    e = tw["entry"]
                    t[e] = t[e] * tw["factor"] if t[e] else (tw["factor"] - 1)
                else:
                    t[0] *= tw["factor"]
                    t[3] *= tw.get("factor_y", 1)
                g["components"][tw["comp"]]["t"] = t
            elif tw["kind"] == "inline-component" and tw["comp"] < len(g.get("components", [])):
                # in this master only, one component (a pure translation of a simple glyph) is merged into the glyph's own outline: the glyph is mixed here
                # and a plain composite in the other masters
                c = g["components"][tw["comp"]]
                b = next((h for h in sp["glyphs"] if h["name"] == c["base"]), None)
                if b is not None and b.get("contours") and not b.get("components") and list(c["t"][:4]) == [1, 0, 0, 1]:
                    dx, dy = c["t"][4], c["t"][5]
                    g["contours"] = list(g.get("contours", [])) + [[[p[0] + dx, p[1] + dy, p[2]] for p in ct] for ct in b["contours"]]
                    g["components"] = [x for j, x in enumerate(g["components"]) if j != tw["comp"]]
            elif tw["kind"] == "empty-glyph":
                # an empty placeholder for this glyph in this master only (no contours, components or anchors)
                g["contours"], g["components"], g["anchors"] = [], [], []
            elif tw["kind"] == "zero-length" and tw["contour"] < len(g.get("contours", [])):
                c = g["contours"][tw["contour"]]
                j = tw["point"]
                if 0 < j < len(c) - 1 and c[j][2] == "line" and c[j - 1][2] is not None:
                    c[j] = [c[j - 1][0], c[j - 1][1], c[j][2]]   # interior line of zero length in this master only
        out.append(sp)
    return out


@st.composite
def sparse_kern_font(draw):
    """8-14 kerning classes per side with 1-2 class pairs per row: a PairPos class matrix that is mostly zero, so that GPOS compaction really changes the table"""
    n = draw(st.integers(8, 14))
    glyphs = [{"name": ".notdef", "width": 500, "contours": []}]
    groups, kerning = {}, []
    for side, base in (("1", 0x41), ("2", 0x61)):
        for i in range(n):
            nm = "%s%d" % ("L" if side == "1" else "R", i)
            glyphs.append({"name": nm, "width": 500, "unicodes": [base + i], "contours": [[[0, 0, "line"], [100 + i, 0, "line"], [100, 100, "line"]]]})
            groups["public.kern%s.g%d" % (side, i)] = [nm]
    for i in range(n):
        for j in draw(st.lists(st.integers(0, n - 1), min_size=1, max_size=2, unique=True)):
            kerning.append(["public.kern1.g%d" % i, "public.kern2.g%d" % j, draw(st.integers(-90, -10))])
    return {"info": {"unitsPerEm": 1000, "familyName": "Compact", "styleName": "Regular"}, "glyphs": glyphs, "groups": groups, "kerning": kerning, "lib": {}, "features": ""}


@st.composite
def family(draw, base_strategy=None, max_masters=3, allow_sparse=True, allow_two_axes=True, allow_rules=False):
    base = draw(base_strategy if base_strategy is not None else rich_font(with_layers=False))
    for g in base["glyphs"]:
        g["width"] = abs(g.get("width", 0))
    two = allow_two_axes and chance(draw, 1, 4)
    axes = [{"name": "Weight", "tag": "wght", "minimum": 0, "default": 0, "maximum": 1000}]
    if chance(draw, 1, 4):
        axes[0].update(minimum=100, default=100, maximum=900, map=[[100, 0], [400, 320], [900, 1000]])
    if two:
        axes.append({"name": "Width", "tag": "wdth", "minimum": 50, "default": 100, "maximum": 100, "map": [[50, 0], [100, 500]]})
    wmin, wmax = (0, 1000)
    if two:
        masters = [{"k": 0, "loc": {"Weight": 0, "Width": 500}}, {"k": 1, "loc": {"Weight": 1000, "Width": 500}}, {"k": 2, "loc": {"Weight": 0, "Width": 0}}]
        if chance(draw, 1, 2):
            masters.append({"k": 3, "loc": {"Weight": 1000, "Width": 0}})
    else:
        nm = draw(st.integers(2, max_masters))
        locs = [0, 1000, draw(st.sampled_from([500, 250, 700]))][:nm]
        masters = [{"k": i, "loc": {"Weight": l}} for i, l in enumerate(locs)]
    fam = {"base": base, "masters": masters, "axes": axes, "amp": draw(st.sampled_from([0.05, 0.3, 1.0, 2.5])), "diff2x2": chance(draw, 1, 3)}
    names = [g["name"] for g in base["glyphs"] if g["name"] != ".notdef"]
    if allow_sparse and not two and chance(draw, 1, 3):
        sub = draw(st.lists(st.sampled_from(names), min_size=1, max_size=max(1, len(names) // 2), unique=True))
        fam["sparse"] = {"k": 4, "loc": {"Weight": draw(st.sampled_from([300, 600, 850]))}, "names": sorted(sub)}
    if base.get("kerning") and chance(draw, 1, 2):
        i = draw(st.integers(1, len(masters) - 1))
        fam["drop_kerning"] = {str(i): draw(st.lists(st.integers(0, len(base["kerning"]) - 1), min_size=1, max_size=2, unique=True))}
    if allow_rules and len(names) >= 2 and chance(draw, 1, 3):
        a, b = names[0], names[1]
        fam["rules"] = [{"name": "r1", "conditionSets": [[{"name": "Weight", "minimum": 600, "maximum": 1000}]], "subs": [[a, b]]}]
    return fam
