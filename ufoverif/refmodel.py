"""Independent reference models (no fontTools pens, no ufo2ft)."""
import math

def ot_round(v):
    return int(math.floor(v + 0.5))

# affine (xx, xy, yx, yy, dx, dy): x' = xx*x + yx*y + dx ; y' = xy*x + yy*y + dy
IDENT = (1, 0, 0, 1, 0, 0)
def apply(t, p):
    xx, xy, yx, yy, dx, dy = t
    x, y = p
    return (xx * x + yx * y + dx, xy * x + yy * y + dy)
def compose(outer, inner):
    """outer(inner(p)) written out"""
    oxx, oxy, oyx, oyy, odx, ody = outer
    ixx, ixy, iyx, iyy, idx, idy = inner
    return (oxx * ixx + oyx * ixy, oxy * ixx + oyy * ixy,
            oxx * iyx + oyx * iyy, oxy * iyx + oyy * iyy,
            oxx * idx + oyx * idy + odx, oxy * idx + oyy * idy + ody)
def det(t):
    return t[0] * t[3] - t[1] * t[2]

def glyph_index(spec):
    return {g["name"]: g for g in spec["glyphs"]}

def is_dyadic(v, bits=3, lim=2 ** 20):
    """v is a multiple of 2**-bits of moderate size: products/sums of a few such numbers are exact in binary64"""
    return abs(v) < lim and float(v * (1 << bits)).is_integer()


def resolve_ex(gi, name, t=IDENT, flipped=False, exact=True):
    """like resolve() but yields (points, reversed?, exact?) - exact means every transform on the chain has dyadic entries
    (multiples of 1/8) and the points are multiples of 1/1024, so that floating-point evaluation is exact in any
    association order and rounding at x.5 is unambiguous"""
    g = gi[name]
    out = []
    for c in g.get("contours", []):
        ex = exact and all(is_dyadic(x, 10) and is_dyadic(y, 10) for x, y, _ in c)
        out.append(([(*apply(t, (x, y)), ty) for x, y, ty in c], flipped, ex))
    for comp in g.get("components", []):
        if comp["base"] not in gi:
            continue
        ct = tuple(comp["t"])
        out.extend(resolve_ex(gi, comp["base"], compose(t, ct), flipped ^ (det(ct) < 0), exact and all(is_dyadic(v) for v in ct)))
    return out


class P(tuple):
    """rounded point that remembers its unrounded value (.f) and whether rounding it is unambiguous (.strict)"""

    def __new__(cls, r, f=None, strict=True):
        o = tuple.__new__(cls, r)
        o.f = f
        o.strict = strict
        return o


def near_half(v, eps=1e-7):
    fr = v - math.floor(v)
    return abs(fr - 0.5) < eps


def round_point(p, exact):
    """ot_round both coordinates; the result is 'strict' unless the chain was inexact and a coordinate sits on a rounding boundary"""
    return P((ot_round(p[0]), ot_round(p[1])), (p[0], p[1]), exact or not (near_half(p[0]) or near_half(p[1])))


def point_eq(got, exp):
    """got: point read from the font; exp: P from round_point (or a plain tuple)"""
    if tuple(got) == tuple(exp):
        return True
    if isinstance(exp, P) and not exp.strict:
        return all(g == e or (near_half(f) and abs(g - e) <= 1) for g, e, f in zip(got, exp, exp.f))
    return False


def resolve(gi, name, t=IDENT, flipped=False, depth=0):
    """-> list of (points, reversed?) in drawing order; points = [(x,y,type)] transformed."""
    g = gi[name]
    out = []
    for c in g.get("contours", []):
        out.append(([(*apply(t, (x, y)), ty) for x, y, ty in c], flipped))
    for comp in g.get("components", []):
        if comp["base"] not in gi:
            continue
        ct = tuple(comp["t"])
        out.extend(resolve(gi, comp["base"], compose(t, ct), flipped ^ (det(ct) < 0), depth + 1))
    return out

# ---------------- cyclic segment form ----------------
def cycle(points):
    """point-pen contour -> (start, segs, was_closed); segs cover the full cycle back to start
    (open contours get an explicit closing line).  seg = (op, [ctrl..., end]) op in line/curve/qcurve"""
    if not points:
        return None
    if points[0][2] == "move":
        start = (points[0][0], points[0][1])
        rest = points[1:]
        closed = False
    else:
        on = [i for i, p in enumerate(points) if p[2] is not None]
        if not on:
            offs = [(x, y) for x, y, _ in points]
            start = ((offs[-1][0] + offs[0][0]) / 2, (offs[-1][1] + offs[0][1]) / 2)
            return (start, [("qcurve", offs + [start])], True)
        i0 = on[0]
        start = (points[i0][0], points[i0][1])
        rest = points[i0 + 1:] + points[:i0 + 1]
        closed = True
    segs, cur = [], []
    for x, y, ty in rest:
        if ty is None:
            cur.append((x, y))
        else:
            segs.append((ty, cur + [(x, y)]))
            cur = []
    assert not cur, "dangling off-curve"
    if not closed:
        segs.append(("line", [start]))
    return (start, segs, closed)

def map_cycle(c, f):
    start, segs, closed = c
    return (f(start), [(op, [f(p) for p in pts]) for op, pts in segs], closed)

def reverse_cycle(c):
    start, segs, closed = c
    # vertices: v0=start, v_i = end of seg i ; v_n == start
    ends = [start] + [pts[-1] for _, pts in segs]
    out = []
    for i in range(len(segs) - 1, -1, -1):
        op, pts = segs[i]
        out.append((op, list(reversed(pts[:-1])) + [ends[i]]))
    return (start, out, closed)

def to_cubics(c):
    """replace qcurve segments by exact cubic elevations of their single-quadratic pieces"""
    start, segs, closed = c
    out, cur = [], start
    for op, pts in segs:
        if op == "qcurve":
            offs, end = pts[:-1], pts[-1]
            p0 = cur
            for i, q in enumerate(offs):
                p1 = end if i + 1 == len(offs) else ((q[0] + offs[i + 1][0]) / 2, (q[1] + offs[i + 1][1]) / 2)
                c1 = (p0[0] + 2 / 3 * (q[0] - p0[0]), p0[1] + 2 / 3 * (q[1] - p0[1]))
                c2 = (p1[0] + 2 / 3 * (q[0] - p1[0]), p1[1] + 2 / 3 * (q[1] - p1[1]))
                out.append(("curve*", [c1, c2, p1]))   # * = derived control points
                p0 = p1
        else:
            out.append((op, pts))
        cur = pts[-1]
    return (start, out, closed)

def oplist(c):
    """what a segment pen receives for cycle c starting at c.start: the implied closing *line*
    (last segment, if it is a line) is not an operator"""
    start, segs, closed = c
    segs = list(segs)
    if segs and segs[-1][0] == "line":
        segs.pop()
    return (start, segs)

def strip_tail(ops):
    """N0: strip trailing zero-length line operators (they sit next to the implicit close)"""
    start, segs = ops
    segs = list(segs)
    while segs and segs[-1][0] == "line":
        prev = segs[-2][1][-1] if len(segs) > 1 else start
        if segs[-1][1][-1] == prev:
            segs.pop()
        else:
            break
    return (start, segs)

def rotations(c):
    """all cycles equal to c up to the choice of start vertex"""
    start, segs, closed = c
    ends = [start] + [pts[-1] for _, pts in segs]
    return [(ends[r], segs[r:] + segs[:r], closed) for r in range(len(segs))] or [c]

def n1(c):
    """canonical cyclic form: zero-length segments removed, consecutive H (resp. V) lines merged, incl. wrap-around.
    returns list of ('line'|'curve', delta tuples) rotated to lexicographically smallest rotation"""
    start, segs = c[0], list(c[1])
    if segs and segs[-1][1][-1] != start:
        segs.append(("line", [start]))
    # to relative deltas
    rel, cur = [], start
    for op, pts in segs:
        d, p0 = [], cur
        for p in pts:
            d.append((p[0] - p0[0], p[1] - p0[1])); p0 = p
        d = tuple(d)
        if op.startswith("curve") and len(d) == 3 and d[0] == (0, 0) and d[2] == (0, 0):
            op, d = "line", (d[1],)      # a curve whose control points coincide with its end points is a line
        rel.append((op, d))
        cur = pts[-1]
    changed = True
    while changed and rel:
        changed = False
        rel2 = [s for s in rel if any(dx != 0 or dy != 0 for dx, dy in s[1])]
        if len(rel2) != len(rel):
            rel, changed = rel2, True
            continue
        n = len(rel)
        if n >= 2:
            for i in range(n):
                a, b = rel[i], rel[(i + 1) % n]
                if a[0] == b[0] == "line":
                    (ax, ay), (bx, by) = a[1][0], b[1][0]
                    if (ay == 0 and by == 0) or (ax == 0 and bx == 0):
                        m = ("line", ((ax + bx, ay + by),))
                        if i + 1 < n:
                            rel = rel[:i] + [m] + rel[i + 2:]
                        else:
                            rel = [m] + rel[1:n - 1]
                        changed = True
                        break
    return rel

def n1_equal(a, b, ctrl_tol=0):
    """cyclic equality of two n1() results; control points of 'curve*' in b may differ by ctrl_tol"""
    if len(a) != len(b):
        return False
    if not a:
        return True
    def seg_eq(x, y):
        if ctrl_tol and x[0] == "line" and y[0] == "curve*":
            x = ("curve", ((0, 0), x[1][0], (0, 0)))   # the font side demoted a degenerate curve to a line
        if x[0].rstrip("*") != y[0].rstrip("*") or len(x[1]) != len(y[1]):
            return False
        if y[0].endswith("*") and ctrl_tol:
            # deltas: d1, d2, d3 ; absolute control points differ by <= tol -> compare cumulative sums
            ax = ay = bx = by = 0
            for i, (p, q) in enumerate(zip(x[1], y[1])):
                ax += p[0]; ay += p[1]; bx += q[0]; by += q[1]
                t = 0 if i == len(x[1]) - 1 else ctrl_tol
                if abs(ax - bx) > t or abs(ay - by) > t:
                    return False
            return True
        return x[1] == y[1]
    n = len(a)
    return any(all(seg_eq(a[(i + r) % n], b[i]) for i in range(n)) for r in range(n))

def cyc_equal_upto_rotation(a, b):
    """a, b: (start, segs, closed) ; compare absolute cyclic sequences up to rotation"""
    sa = _abs_cycle(a); sb = _abs_cycle(b)
    if len(sa) != len(sb):
        return False
    if not sa:
        return True
    return any(sa[i:] + sa[:i] == sb for i in range(len(sa)))

def _abs_cycle(c):
    start, segs, closed = c
    out, cur = [], start
    for op, pts in segs:
        out.append((cur, "curve" if op.startswith("curve") else op, tuple(pts)))
        cur = pts[-1]
    return out
