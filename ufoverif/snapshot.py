"""Deep structural snapshots of UFO fonts (all layers) and designspace documents, for non-mutation checks.
Numbers keep their type (an int that became a float is a change)."""
from fontTools.ufoLib import fontInfoAttributesVersion3


def freeze(o):
    if isinstance(o, dict) or hasattr(o, "items") and callable(o.items):
        return ("dict", tuple(sorted(((repr(k), freeze(v)) for k, v in o.items()))))
    if isinstance(o, (list, tuple)):
        return (type(o).__name__ if isinstance(o, (list, tuple)) else "seq", tuple(freeze(v) for v in o))
    if isinstance(o, (set, frozenset)):
        return ("set", tuple(sorted(freeze(v) for v in o)))
    if isinstance(o, bool) or o is None or isinstance(o, (int, float, str, bytes)):
        return (type(o).__name__, o)
    if hasattr(o, "__dict__"):
        return (type(o).__name__, freeze({k: v for k, v in vars(o).items() if not k.startswith("_")}))
    return (type(o).__name__, repr(o))


class _RecPointPen:
    def __init__(self):
        self.contours = []
        self.components = []
        self._cur = None

    def beginPath(self, identifier=None, **kw):
        self._cur = [("id", identifier)]

    def addPoint(self, pt, segmentType=None, smooth=False, name=None, identifier=None, **kw):
        self._cur.append((freeze(pt[0]), freeze(pt[1]), segmentType, bool(smooth), name, identifier))

    def endPath(self):
        self.contours.append(tuple(self._cur))
        self._cur = None

    def addComponent(self, baseGlyphName, transformation, identifier=None, **kw):
        self.components.append((baseGlyphName, tuple(freeze(v) for v in transformation), identifier))


def _anchor(a):
    return (a.name, freeze(a.x), freeze(a.y), getattr(a, "identifier", None), freeze(getattr(a, "color", None)))


def _guideline(g):
    return tuple(freeze(getattr(g, k, None)) for k in ("x", "y", "angle", "name", "color", "identifier"))


def glyph_snapshot(glyph, mask=False):
    """mask=True hides code points and component base names (what the colour-layer filter is known to rewrite, KF-C07-2)"""
    pen = _RecPointPen()
    glyph.drawPoints(pen)
    img = getattr(glyph, "image", None)
    return (
        glyph.name,
        freeze(glyph.width),
        freeze(glyph.height),
        tuple(glyph.unicodes) if not mask else "masked",
        tuple(pen.contours),
        tuple(pen.components) if not mask else tuple(("masked",) + c[1:] for c in pen.components),
        tuple(_anchor(a) for a in glyph.anchors),
        freeze(dict(glyph.lib)),
        getattr(glyph, "note", None),
        tuple(_guideline(g) for g in (glyph.guidelines or [])),
        freeze(dict(img)) if img is not None and hasattr(img, "keys") else repr(img) if img is not None else None,
    )


def layer_snapshot(layer, mask=False):
    if mask:
        # KF-C07-2: glyph objects of colour layers are put into the working glyph set uncopied and are then rewritten by every
        # later filter (decomposed, reversed, overlaps removed, code points cleared): only the membership is compared
        return (layer.name, freeze(dict(layer.lib)), tuple(sorted(layer.keys())))
    return (
        layer.name,
        freeze(dict(layer.lib)),
        freeze(getattr(layer, "color", None)),
        tuple(glyph_snapshot(layer[n], mask) for n in sorted(layer.keys())),
        tuple(layer.keys()) if not hasattr(layer, "_glyphs") else tuple(layer.keys()),
    )


def font_snapshot(font, drop_lib_keys=(), mask_layers=(), drop_features=False, drop_category_of=None):
    """-> dict of named parts, so that a difference can be reported by part.
    The optional arguments hide exactly what a listed known finding is known to rewrite, so that any *other* change still shows."""
    info = {}
    for attr in sorted(fontInfoAttributesVersion3):
        v = getattr(font.info, attr, None)
        if v is not None:
            info[attr] = freeze(v)
    layers = font.layers
    default = layers.defaultLayer.name
    snap = {
        "layerOrder": tuple(l.name for l in layers),
        "defaultLayer": default,
        "lib": freeze(_masked_lib(font.lib, drop_lib_keys, drop_category_of)),
        "info": freeze(info),
        "kerning": freeze(dict(font.kerning)),
        "groups": freeze({k: list(v) for k, v in font.groups.items()}),
        "features": font.features.text if not drop_features else "masked",
        "glyphOrder": freeze(list(font.glyphOrder)),
    }
    for l in layers:
        snap["layer:" + l.name] = layer_snapshot(l, l.name in mask_layers)
    return snap


def _masked_lib(lib, drop_keys, drop_category_of):
    d = {k: v for k, v in dict(lib).items() if k not in drop_keys}
    if drop_category_of and "public.openTypeCategories" in d:
        d["public.openTypeCategories"] = {k: v for k, v in dict(d["public.openTypeCategories"]).items() if k != drop_category_of}
    return d


def diff_parts(a, b):
    return sorted(k for k in set(a) | set(b) if a.get(k) != b.get(k))


def designspace_snapshot(ds):
    def desc(o, skip=("font",)):
        return freeze({k: v for k, v in vars(o).items() if k not in skip and not k.startswith("_")})

    snap = {
        "axes": tuple(desc(a) for a in ds.axes),
        "axisMappings": tuple(desc(a) for a in getattr(ds, "axisMappings", [])),
        "sources": tuple(desc(s) for s in ds.sources),
        "source_font_ids": tuple(id(s.font) for s in ds.sources),
        "source_list_ids": tuple(id(s) for s in ds.sources),
        "instances": tuple(desc(i) for i in ds.instances),
        "rules": tuple(desc(r) for r in ds.rules),
        "rulesProcessingLast": ds.rulesProcessingLast,
        "variableFonts": tuple(desc(v) for v in getattr(ds, "variableFonts", [])),
        "lib": freeze(dict(ds.lib)),
        "path": ds.path,
        "filename": getattr(ds, "filename", None),
        "formatVersion": getattr(ds, "formatVersion", None),
    }
    return snap


# ------------------------------------------------------------------ glyph objects -> spec dicts (input of refmodel.resolve)
class _SpecPen:
    def __init__(self):
        self.contours = []
        self.components = []
        self._cur = None

    def beginPath(self, identifier=None, **kw):
        self._cur = []

    def addPoint(self, pt, segmentType=None, smooth=False, name=None, identifier=None, **kw):
        self._cur.append((pt[0], pt[1], segmentType))

    def endPath(self):
        self.contours.append(self._cur)
        self._cur = None

    def addComponent(self, baseGlyphName, transformation, identifier=None, **kw):
        self.components.append({"base": baseGlyphName, "t": tuple(transformation)})


def glyph_to_spec(glyph):
    pen = _SpecPen()
    glyph.drawPoints(pen)
    return {
        "name": glyph.name,
        "width": glyph.width,
        "height": glyph.height,
        "unicodes": list(glyph.unicodes),
        "contours": pen.contours,
        "components": pen.components,
        "anchors": [{"name": a.name, "x": a.x, "y": a.y} for a in glyph.anchors],
        "lib": freeze(dict(glyph.lib)),
    }


def glyphset_to_spec(gs):
    return {"glyphs": [glyph_to_spec(gs[n]) for n in gs.keys()]}
