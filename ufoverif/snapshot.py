"""semantic snapshots of glyph objects via our own point pen"""
class RecPointPen:
    def __init__(self): self.contours = []; self.components = []; self._cur = None
    def beginPath(self, identifier=None, **kw): self._cur = []
    def addPoint(self, pt, segmentType=None, smooth=False, name=None, identifier=None, **kw):
        self._cur.append((pt[0], pt[1], segmentType))
    def endPath(self): self.contours.append(self._cur); self._cur = None
    def addComponent(self, baseGlyphName, transformation, identifier=None, **kw):
        self.components.append({"base": baseGlyphName, "t": tuple(transformation)})

def glyph_spec(glyph):
    pen = RecPointPen(); glyph.drawPoints(pen)
    return {"name": glyph.name, "width": glyph.width, "height": glyph.height, "unicodes": list(glyph.unicodes),
            "contours": pen.contours, "components": pen.components,
            "anchors": [{"name": a.name, "x": a.x, "y": a.y} for a in glyph.anchors],
            "lib": repr(sorted(dict(glyph.lib).items(), key=repr))}

def glyphset_spec(gs):
    return {"glyphs": [glyph_spec(gs[n]) for n in gs.keys()]}
